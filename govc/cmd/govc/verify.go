package main

import (
	"fmt"
	"time"
	"go/types"
	"sort"
	"strings"

	"golang.org/x/tools/go/ssa"
)

// VC is one proof obligation ready for the solvers.
type VC struct {
	InvOf string   // an invariant obligation: "-" (ungrouped) or the group of the invariant
	Uses  []string // a postcondition: the invariant groups it switches on
	Local bool // a postcondition that callers do not get as a premise (its failure does not make their proofs conditional)
	Name    string
	Prop    string
	Kind    string // post, law.range, law.refl, law.antisym, law.trans, pre, safe.*, frame, lemma, vacuity
	Fn      string
	Script  string
	Pos     string
	Clause  string
	Bounded string // non-empty: bounded stand-in with this bound (never counted as proved)
	Unsupported string
	ExpectSat bool // vacuity canary: must be satisfiable
	Callees []string
	Assumed []string // library symbols used
	Replay  *ReplaySpec
	Run     func() SolveResult // non-SMT discharge (bounded enumeration on the real code)
	// staged fallback (post obligations): when the direct query is not decided, unreachable return points are
	// established first under the clause's hypothesis and then asserted as lemmas for the final query
	StageBase string
	StageHyp  Term
	StageGoal Term
	StageCands []Term
}

type ReplaySpec struct {
	Fn     string
	Params []ReplayParam
	Runs   [][]int // which param sets per run (law obligations)
}

type ReplayParam struct {
	Name string
	Term Term
	Type string
}

// execResult: the function result as terms ret_i plus "returned".
func (e *Exec) resultTerms() ([]Term, Term) {
	sig := e.fn.Signature
	n := sig.Results().Len()
	var reaches []Term
	for _, r := range e.rets {
		reaches = append(reaches, r.reach)
	}
	returned := e.def("returned", "Bool", or(reaches...))
	var out []Term
	for i := 0; i < n; i++ {
		var acc Term
		for k := len(e.rets) - 1; k >= 0; k-- {
			r := e.rets[k]
			if acc == "" {
				acc = r.vals[i]
			} else {
				acc = ite(r.reach, r.vals[i], acc)
			}
		}
		if acc == "" {
			acc = e.g.zero(sig.Results().At(i).Type())
		}
		out = append(out, e.def(fmt.Sprintf("ret%d", i), e.g.sortOf(sig.Results().At(i).Type()), acc))
	}
	return out, returned
}

// envFor: expression environment for fn's own contract over an execution.
func (e *Exec) envFor(rets []Term) *exprEnv {
	env := &exprEnv{e: e, g: e.g, w: e.w, pkg: e.fn.Pkg, vars: map[string]typedTerm{}}
	if env.pkg == nil && e.fn.Origin() != nil {
		env.pkg = e.fn.Origin().Pkg
	}
	if env.pkg == nil && e.fn.Parent() != nil {
		env.pkg = e.fn.Parent().Pkg
	}
	for i, p := range e.fn.Params {
		env.vars[p.Name()] = typedTerm{t: e.params[i], typ: p.Type()}
		env.args = append(env.args, typedTerm{t: e.params[i], typ: p.Type()})
	}
	sig := e.fn.Signature
	for i, r := range rets {
		env.result = append(env.result, typedTerm{t: r, typ: sig.Results().At(i).Type()})
	}
	if len(e.outputs) > 0 {
		// what the activation wrote to its io.Writer: `nprinted` write calls, `printed` the text of the (first) one
		cnt := "0"
		text := e.g.lit("")
		for i := len(e.outputs) - 1; i >= 0; i-- {
			o := e.outputs[i]
			cnt = "(+ " + cnt + " (ite " + o.reach + " 1 0))"
			text = ite(o.reach, o.text, text)
		}
		env.extra = map[string]typedTerm{"nprinted": {t: cnt, typ: tInt}, "printed": {t: text, typ: tStr}}
	}
	return env
}

// implicitRequires: pointer parameters (receivers included) are non-nil unless declared nullable.
func (g *Gen) implicitRequires(fn *ssa.Function, args []Term) []Term {
	ct := g.w.contractOf(fn)
	var out []Term
	for i, p := range fn.Params {
		if i >= len(args) {
			break
		}
		pt, ok := p.Type().Underlying().(*types.Pointer)
		if !ok {
			continue
		}
		if st, _ := structOf(pt); st == nil {
			continue
		}
		nullable := false
		if ct != nil {
			for _, n := range ct.nullable {
				if n == p.Name() {
					nullable = true
				}
			}
		}
		if !nullable {
			out = append(out, "(not ((_ is nil_"+g.sortOf(p.Type())+") "+args[i]+"))")
		}
	}
	return out
}

func (e *Exec) assumeRequires(ct *Contract) bool {
	for _, t := range e.g.implicitRequires(e.fn, e.params) {
		e.g.assert(t)
	}
	if ct == nil {
		return true
	}
	env := e.envFor(nil)
	env.fullNested = true // a precondition such as "every element of every group is non-nil" is needed at pairs of iteration indices
	// quantified preconditions are instantiated at the goal constants and at the iteration indices of the loops
	env.instAt = append([]Term{}, e.goalSk...)
	for _, sm := range e.summaries {
		if !sm.nested {
			env.instAt = append(env.instAt, sm.K, "(+ "+sm.K+" 1)")
		}
	}
	for _, k := range e.loopKs {
		env.instAt = append(env.instAt, k)
	}
	for _, cl := range ct.clauses {
		if cl.kind != "requires" {
			continue
		}
		t := env.tr(cl.expr)
		if env.err != "" {
			e.unsupported("requires: " + env.err)
			return false
		}
		e.g.assert(t.t)
	}
	return true
}

func clauseLabel(cl *Clause, i int) string {
	if cl.name != "" {
		return cl.name
	}
	return fmt.Sprint(i)
}

type genOpts struct {
	prop      string
	tags      []string // premise tags
	wantKinds map[string]bool
}

// functionVCs generates the obligations of fn relevant to property prop.
//   - post: ensures clauses tagged prop (and untagged ones when inclBase)
//   - law:  comparator clauses tagged prop
//   - pre:  callee preconditions at call sites (always, when fn has anything to prove for prop)
//   - safe: index/nil/slice/... (when safe is set)
// propImports: a check may import the clauses of other properties as premises; every imported
// clause that is actually used is re-proved inside the importing check (self-contained evidence).
var propImports = map[string][]string{
	"C20": {"C01", "C02"},
	"C07": {"C01"},
	"C16": {"C01"},
	"C04": {"C01", "C02"},
	"C05": {"C01", "C03"},
}

func premiseTags(prop string) []string {
	return append([]string{prop}, propImports[prop]...)
}

func (w *World) functionVCs(fn *ssa.Function, prop string, inclBase, safe bool) []VC {
	return w.functionVCsT(fn, prop, map[string]bool{prop: true}, inclBase, safe)
}

func (w *World) functionVCsT(fn *ssa.Function, prop string, prove map[string]bool, inclBase, safe bool) []VC {
	ct := w.contractOf(fn)
	key := w.fnKey(fn)
	var vcs []VC
	var postClauses []*Clause
	var lawClauses []*Clause
	if ct != nil {
		for _, cl := range ct.clauses {
			switch cl.kind {
			case "ensures":
				if (hasAnyTag(cl, prove) && !(prove["!"+prop] && ct.hasTagProp(cl, prop))) || (inclBase && len(cl.tags) == 0) {
					postClauses = append(postClauses, cl)
				}
			case "comparator":
				if hasAnyTag(cl, prove) && !(prove["!"+prop] && ct.hasTagProp(cl, prop)) {
					lawClauses = append(lawClauses, cl)
				}
			}
		}
	}
	if len(postClauses) == 0 && len(lawClauses) == 0 && !safe {
		return nil
	}
	if ct != nil && ct.trusted {
		return nil
	}
	if ct != nil && ct.boundAlpha != "" {
		// outside the verifier's reach: bounded stand-in by exhaustive enumeration on the real code
		for li, cl := range lawClauses {
			cl := cl
			suffix := ""
			if li > 0 {
				suffix = fmt.Sprint(li + 1)
			}
			bound := fmt.Sprintf("all strings over %q up to length %d", ct.boundAlpha, ct.boundLen)
			vcs = append(vcs, VC{Name: fmt.Sprintf("%s.law%s.bounded", key, suffix), Prop: prop, Kind: "bounded.law", Fn: key, Clause: "comparator " + cl.src,
				Bounded: bound, Pos: w.pos(fn.Pos()), Run: func() SolveResult {
					start := time.Now()
					cx := runLawSearch(w, fn, cl, ct.boundAlpha, ct.boundLen, 300*time.Second, nil)
					res := SolveResult{Solver: "enumeration(go test -overlay)", Seconds: time.Since(start).Seconds(), cx: cx}
					switch {
					case cx == nil:
						res.Status = "error"
						res.Output = "no harness for this signature"
					case cx.Confirmed:
						res.Status = "sat"
						res.Output = cx.Observed
					case strings.HasPrefix(cx.Observed, "VERIF-OK"):
						res.Status = "unsat"
						res.Output = cx.Observed
					default:
						res.Status = "error"
						res.Output = cx.Observed + " " + cx.Output
					}
					return res
				}})
		}
		lawClauses = nil // the comparator clauses are bounded; postconditions below are still proved by SMT
		if len(postClauses) == 0 && !safe {
			return vcs
		}
	}
	// single execution: post + pre + safe
	if len(postClauses) > 0 || safe {
		g := newGen(w, premiseTags(prop))
		e := newExec(g, w, fn, "")
		e.run(nil)
		ok := g.unsupported == "" && e.assumeRequires(ct)
		if !ok || g.unsupported != "" {
			vcs = append(vcs, VC{Name: key + ".unsupported", Prop: prop, Kind: "unsupported", Fn: key, Unsupported: g.unsupported})
		} else {
			rets, returned := e.resultTerms()
			env := e.envFor(rets)
			env.goalSk = e.goalSk
			for _, sm := range e.summaries {
				if !sm.nested {
					env.hypInst = append(env.hypInst, sm.K, "(+ "+sm.K+" 1)")
				}
			}
			baseInst := append([]Term{}, env.hypInst...)
			for _, cl := range postClauses {
				env.hypInst = append(append([]Term{}, baseInst...), e.witnessesFor(cl.using)...)
				env.skNext = 0
				t := env.trGoal(cl.expr)
				if env.err != "" {
					vcs = append(vcs, VC{Name: fmt.Sprintf("%s.post[%s]/%s", key, tagLabel(cl, prove, prop), clauseLabel(cl, cl.ord)), Prop: prop, Kind: "unsupported", Fn: key, Unsupported: env.err})
					env.err = ""
					continue
				}
				pvc := w.mkVC(g, fmt.Sprintf("%s.post[%s]/%s", key, tagLabel(cl, prove, prop), clauseLabel(cl, cl.ord)), prop, "post", key, cl.src,
					append(g.groupLines(cl.using, false), "(assert "+returned+")", "(assert (not "+t.t+"))"), w.pos(fn.Pos()), e.replaySpec())
				pvc.Local = len(cl.using) > 0 && !usesPublic(cl.using) // not handed to callers as a premise
				pvc.Uses = cl.using
				if cl.expr.op == "binary" && cl.expr.name == "==>" && len(e.rets) > 1 {
					env.skNext = 0
					saved := env.instAt
					env.instAt = append(append([]Term{}, env.hypInst...), env.goalSk...)
					hyp := env.tr(cl.expr.args[0])
					env.instAt = saved
					concl := env.trGoal(cl.expr.args[1])
					if env.err == "" {
						pvc.StageBase = g.script(append(g.groupLines(cl.using, false), "(assert "+returned+")"))
						pvc.StageHyp, pvc.StageGoal = hyp.t, concl.t
						for _, r := range e.rets {
							pvc.StageCands = append(pvc.StageCands, r.reach)
						}
					}
					env.err = ""
				}
				vcs = append(vcs, pvc)
			}
			for _, ob := range e.obls {
				if ob.Kind == "pre" || ob.Kind == "inv" || safe {
					kind := ob.Kind
					if kind != "pre" && kind != "inv" {
						kind = "safe." + kind
					}
					ovc := w.mkVC(g, ob.Name, prop, kind, key, "",
						append(g.groupLines(ob.Groups, false), "(assert "+ob.Cond+")", "(assert (not "+ob.Goal+"))"), w.pos(ob.Pos), e.replaySpec())
					ovc.InvOf = ob.InvOf
					vcs = append(vcs, ovc)
				}
			}
			if safe {
				// memory discipline of the value-semantics model
				for c := range e.lateStore {
					vcs = append(vcs, VC{Name: key + ".unsupported", Prop: prop, Kind: "unsupported", Fn: key, Unsupported: "store to " + c.name + " after it escaped (outside the modelled subset)"})
				}
			}
			// vacuity canary: precondition + some return reachable
			vcs = append(vcs, func() VC {
				vc := w.mkVC(g, key+".vacuity", prop, "vacuity", key, "", append(g.groupLines(nil, true), "(assert "+returned+")"), w.pos(fn.Pos()), nil)
				vc.ExpectSat = true
				return vc
			}())
		}
	}
	for li, cl := range lawClauses {
		vcs = append(vcs, w.lawVCs(fn, ct, cl, prop, li)...)
	}
	return vcs
}

func hasAnyTag(cl *Clause, tags map[string]bool) bool {
	for _, t := range cl.tags {
		if tags[t] {
			return true
		}
	}
	return false
}

// tagLabel: the tag under which a clause's obligation is named (the first of its tags that is being proved).
func tagLabel(cl *Clause, prove map[string]bool, prop string) string {
	for _, t := range cl.tags {
		if t == prop {
			return prop
		}
	}
	for _, t := range cl.tags {
		if prove[t] {
			return t
		}
	}
	return prop
}

func (c *Contract) hasTagProp(cl *Clause, prop string) bool {
	for _, t := range cl.tags {
		if t == prop {
			return true
		}
	}
	return false
}

func (w *World) mkVC(g *Gen, name, prop, kind, fn, clause string, extra []string, pos string, rs *ReplaySpec) VC {
	script := g.script(append(extra, "(check-sat)", "(get-model)"))
	vc := VC{Name: name, Prop: prop, Kind: kind, Fn: fn, Script: script, Pos: pos, Clause: clause, Replay: rs}
	for _, f := range g.calleeOrd {
		vc.Callees = append(vc.Callees, w.fnKey(f))
	}
	vc.Assumed = sortedKeys(g.libs)
	for _, f := range g.calleeOrd {
		if c := w.contractOf(f); c != nil && c.boundAlpha != "" {
			vc.Bounded = "relative to the bounded premise on " + w.fnKey(f)
		}
	}
	return vc
}

func (e *Exec) replaySpec() *ReplaySpec {
	rs := &ReplaySpec{Fn: e.w.fnKey(e.fn)}
	for i, p := range e.fn.Params {
		rs.Params = append(rs.Params, ReplayParam{Name: p.Name(), Term: e.params[i], Type: p.Type().String()})
	}
	return rs
}

// lawVCs: range, refl, antisym, trans for a comparator clause.
func (w *World) lawVCs(fn *ssa.Function, ct *Contract, cl *Clause, prop string, li int) []VC {
	key := w.fnKey(fn)
	idx := map[string]int{}
	for i, p := range fn.Params {
		idx[p.Name()] = i
	}
	for _, nm := range append(append([]string{}, cl.left...), cl.right...) {
		if _, ok := idx[nm]; !ok {
			return []VC{{Name: key + ".law", Prop: prop, Kind: "unsupported", Fn: key, Unsupported: "comparator: unknown parameter " + nm}}
		}
	}
	k := len(cl.left)
	suffix := ""
	if li > 0 {
		suffix = fmt.Sprint(li + 1)
	}
	var vcs []VC
	build := func(kind string, nobj int, runs [][2]int, goal func(r []Term) Term) {
		g := newGen(w, premiseTags(prop))
		// symbolic objects
		objs := make([][]Term, nobj)
		tmp := &Exec{g: g, w: w, fn: fn}
		for o := 0; o < nobj; o++ {
			for i := 0; i < k; i++ {
				p := fn.Params[idx[cl.left[i]]]
				nm := fmt.Sprintf("obj%c_%s", 'a'+o, sanitize(p.Name()))
				g.declare(fmt.Sprintf("(declare-fun %s () %s)", nm, g.sortOf(p.Type())))
				g.assert(tmp.typeInv(p.Type(), nm))
				objs[o] = append(objs[o], nm)
			}
		}
		// shared extra params
		extra := map[int]Term{}
		for i, p := range fn.Params {
			isLR := false
			for j := 0; j < k; j++ {
				if idx[cl.left[j]] == i || idx[cl.right[j]] == i {
					isLR = true
				}
			}
			if !isLR {
				nm := "shared_" + sanitize(p.Name())
				g.declare(fmt.Sprintf("(declare-fun %s () %s)", nm, g.sortOf(p.Type())))
				g.assert(tmp.typeInv(p.Type(), nm))
				extra[i] = nm
			}
		}
		var results []Term
		var wheres []*Exec
		var sums []loopSummary
		var rs ReplaySpec
		rs.Fn = key
		for o := 0; o < nobj; o++ {
			for i := 0; i < k; i++ {
				p := fn.Params[idx[cl.left[i]]]
				rs.Params = append(rs.Params, ReplayParam{Name: fmt.Sprintf("%c.%s", 'a'+o, p.Name()), Term: objs[o][i], Type: p.Type().String()})
			}
		}
		for ri, run := range runs {
			params := make([]Term, len(fn.Params))
			for i := 0; i < k; i++ {
				params[idx[cl.left[i]]] = objs[run[0]][i]
				params[idx[cl.right[i]]] = objs[run[1]][i]
			}
			for i, t := range extra {
				params[i] = t
			}
			e := newExec(g, w, fn, fmt.Sprintf("r%d_", ri))
			e.noObl = true
			e.run(params)
			if g.unsupported != "" {
				vcs = append(vcs, VC{Name: fmt.Sprintf("%s.law%s.%s", key, suffix, kind), Prop: prop, Kind: "unsupported", Fn: key, Unsupported: g.unsupported})
				return
			}
			if !e.assumeRequires(ct) {
				vcs = append(vcs, VC{Name: fmt.Sprintf("%s.law%s.%s", key, suffix, kind), Prop: prop, Kind: "unsupported", Fn: key, Unsupported: g.unsupported})
				return
			}
			wheres = append(wheres, e)
			rets, returned := e.resultTerms()
			g.assert(returned)
			results = append(results, rets[0])
			rs.Runs = append(rs.Runs, []int{run[0], run[1]})
			sums = append(sums, e.summaries...)
		}
		// where-clauses: assumed for every run, with their index quantifiers instantiated at all loop exit indices
		if cl.where != nil {
			var ats []Term
			for _, s := range sums {
				if !s.nested {
					ats = append(ats, s.K, "(+ "+s.K+" 1)")
				}
			}
			for _, e := range wheres {
				env := e.envFor(nil)
				env.instAt = ats
				t := env.tr(cl.where)
				if env.err != "" {
					vcs = append(vcs, VC{Name: fmt.Sprintf("%s.law%s.%s", key, suffix, kind), Prop: prop, Kind: "unsupported", Fn: key, Unsupported: env.err})
					return
				}
				g.assert(t.t)
			}
		}
		// cross-instantiate the loop summaries of the runs at each other's exit indices
		for _, s := range sums {
			for _, t := range sums {
				if s.K == t.K || s.nested || t.nested {
					continue
				}
				at := t.K
				idx := at
				if s.shift == 1 {
					idx = "(+ " + at + " 1)"
				}
				g.assert(implies(and(s.reach, "(<= "+s.init+" "+at+")", "(< "+at+" "+s.K+")"), strings.ReplaceAll(s.cont, "@J@", idx)))
			}
		}
		vc := w.mkVC(g, fmt.Sprintf("%s.law%s.%s", key, suffix, kind), prop, "law."+kind, key, "comparator "+cl.src,
			[]string{"(assert (not " + goal(results) + "))"}, w.pos(fn.Pos()), &rs)
		vcs = append(vcs, vc)
	}
	build("range", 2, [][2]int{{0, 1}}, func(r []Term) Term {
		return fmt.Sprintf("(or (= %s (- 1)) (= %s 0) (= %s 1))", r[0], r[0], r[0])
	})
	build("refl", 1, [][2]int{{0, 0}}, func(r []Term) Term { return "(= " + r[0] + " 0)" })
	build("antisym", 2, [][2]int{{0, 1}, {1, 0}}, func(r []Term) Term { return "(= " + r[0] + " (- " + r[1] + "))" })
	build("trans", 3, [][2]int{{0, 1}, {1, 2}, {0, 2}}, func(r []Term) Term {
		return fmt.Sprintf("(=> (and (<= %s 0) (<= %s 0)) (and (<= %s 0) (=> (or (< %s 0) (< %s 0)) (< %s 0))))", r[0], r[1], r[2], r[0], r[1], r[2])
	})
	return vcs
}

// lemmaVC: closed formula over spec functions and F_f symbols.
func (w *World) lemmaVC(lm *Lemma, prop string) VC {
	g := newGen(w, premiseTags(prop))
	env := &exprEnv{g: g, w: w, pkg: w.byShort[lm.pkg], vars: map[string]typedTerm{}}
	// earlier lemmas of the same package (allowed tags, not recorded findings) are premises
	for _, prev := range w.lemmas {
		if prev == lm {
			break
		}
		if prev.pkg != lm.pkg || !g.tagAllowed(prev.tags) || w.findingSet()[prev.pkg+".lemma."+prev.name] {
			continue
		}
		used := false
		for _, u := range lm.uses {
			if u == prev.name {
				used = true
			}
		}
		if !used {
			continue
		}
		pt := env.tr(prev.expr)
		if env.err == "" {
			g.assert(pt.t)
		}
		env.err = ""
	}
	name := lm.pkg + ".lemma." + lm.name
	// goal mode: the universally quantified variables of the lemma become fresh constants (with their type invariants
	// assumed) and the body is translated as a goal, so that inner quantifiers are skolemized / instantiated
	var pre []string
	body := lm.expr
	if body.op == "forall" {
		tmp := &Exec{g: g, w: w}
		for i, v := range body.vars {
			tt := env.resolveType(v.typ)
			c := fmt.Sprintf("lm!%d!%s", i, sanitize(v.name))
			g.declare(fmt.Sprintf("(declare-fun %s () %s)", c, g.sortOf(tt)))
			env.vars[v.name] = typedTerm{t: c, typ: tt}
			if inv := tmp.typeInv(tt, c); inv != "true" {
				pre = append(pre, "(assert "+inv+")")
			}
		}
		for i := 0; i < 4; i++ {
			c := fmt.Sprintf("lgsk!%d", i)
			g.declare(fmt.Sprintf("(declare-fun %s () Int)", c))
			env.goalSk = append(env.goalSk, c)
		}
		g.goalSk = env.goalSk
		body = body.args[0]
	}
	var t typedTerm
	if len(env.goalSk) > 0 {
		t = env.trGoal(body)
	} else {
		t = env.tr(body)
	}
	if env.err != "" || g.unsupported != "" {
		return VC{Name: name, Prop: prop, Kind: "unsupported", Fn: name, Unsupported: env.err + g.unsupported}
	}
	return w.mkVC(g, name, prop, "lemma", name, lm.src, append(pre, "(assert (not "+t.t+"))"), "", nil)
}

// propVCs collects every obligation of a property over the whole repository.
func (w *World) propVCs(prop string, safe bool) []VC {
	var vcs []VC
	done := map[*ssa.Function]bool{}
	done2 := map[*ssa.Function]bool{}
	needBase := map[string]bool{}
	for _, fn := range w.repoFunctions() {
		ct := w.contractOf(fn)
		has := false
		if ct != nil {
			for _, cl := range ct.clauses {
				if ct.hasTagProp(cl, prop) {
					has = true
				}
			}
		}
		if !has && !safe {
			continue
		}
		if fn.Name() == "init" && fn.Synthetic != "" {
			continue
		}
		done[fn] = true
		v := w.functionVCs(fn, prop, true, safe)
		for _, x := range v {
			for _, c := range x.Callees {
				needBase[c] = true
			}
		}
		vcs = append(vcs, v...)
	}
	// callees whose untagged clauses were used as premises: prove those clauses too
	for changed := true; changed; {
		changed = false
		var keys []string
		for k := range needBase {
			keys = append(keys, k)
		}
		sort.Strings(keys)
		for _, k := range keys {
			fn := w.funcs[k]
			if fn == nil || done2[fn] {
				continue
			}
			done2[fn] = true
			changed = true
			imp := map[string]bool{}
			for _, t := range propImports[prop] {
				imp[t] = true
			}
			var v []VC
			if done[fn] {
				// its prop-tagged (and untagged) clauses are already being proved: add the imported ones only
				if len(imp) == 0 {
					continue
				}
				imp["!"+prop] = true
				v = w.functionVCsT(fn, prop, imp, false, false)
			} else {
				imp[prop] = true
				v = w.functionVCsT(fn, prop, imp, true, false)
			}
			for _, x := range v {
				for _, c := range x.Callees {
					needBase[c] = true
				}
			}
			vcs = append(vcs, v...)
		}
	}
	for _, lm := range w.lemmas {
		for _, t := range lm.tags {
			if t == prop {
				vcs = append(vcs, w.lemmaVC(lm, prop))
			}
		}
	}
	return vcs
}

var _ = strings.Join
var _ = types.Typ

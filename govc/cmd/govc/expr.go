package main

// Typed translation of contract expressions to SMT terms.

import (
	"fmt"
	"go/constant"
	"go/types"
	"strconv"
	"strings"

	"golang.org/x/tools/go/ssa"
)

type typedTerm struct {
	t   Term
	typ types.Type
	tup []typedTerm
	pkgName string // identifier that names an imported package / pseudo-namespace
	fn  *ssa.Function
	recv *typedTerm
	imeth *types.Func // abstract (interface / type parameter) method
}

type exprEnv struct {
	e      *Exec
	g      *Gen
	w      *World
	pkg    *ssa.Package
	vars   map[string]typedTerm
	stepGoal   bool // the goal is the init/step obligation of a loop invariant
	fullNested bool // keep every instantiation point at the nested level (preconditions)
	assumeDepth int // trAssume: nesting depth of universals instantiated at goal constants
	entryVars map[string]typedTerm // parameters at entry, for old(p) inside loop invariants
	result []typedTerm
	args   []typedTerm // positional parameters (arg0 = receiver)
	extra  map[string]typedTerm // extra identifiers (printed, nprinted, exitcode)
	err    string
	idxTerms []Term // index terms seen (candidates for quantifier patterns)
	triggers [][]Term // explicit trigger(...) groups of the quantifier being translated
	instDepth int     // nesting depth of explicit instantiation
	witnesses []Term  // goal mode: named witnesses of existential hypotheses (candidate witnesses for existential goals)
	hypInst  []Term   // goal mode: index terms at which quantified hypotheses of the goal are instantiated
	goalSk   []Term   // goal mode: constants used to skolemize positive single-int foralls
	skNext   int
	instAt   []Term   // assumption mode: also instantiate single-int foralls at these index terms (spec functions are inlined)
}

func (env *exprEnv) fail(format string, a ...any) typedTerm {
	if env.err == "" {
		env.err = fmt.Sprintf(format, a...)
	}
	return typedTerm{t: "true", typ: types.Typ[types.Bool]}
}

var (
	tInt  = types.Typ[types.Int]
	tBool = types.Typ[types.Bool]
	tStr  = types.Typ[types.String]
)

func (env *exprEnv) resolveType(s string) types.Type {
	switch {
	case strings.HasPrefix(s, "[]"):
		return types.NewSlice(env.resolveType(s[2:]))
	case strings.HasPrefix(s, "*"):
		return types.NewPointer(env.resolveType(s[1:]))
	}
	switch s {
	case "int":
		return tInt
	case "string":
		return tStr
	case "bool":
		return tBool
	case "rune":
		return types.Typ[types.Rune]
	case "byte":
		return types.Typ[types.Byte]
	case "error":
		return types.Universe.Lookup("error").Type()
	}
	pk := env.pkg
	name := s
	if i := strings.Index(s, "."); i >= 0 {
		if p := env.w.byShort[s[:i]]; p != nil {
			pk = p
		}
		name = s[i+1:]
	}
	if pk != nil {
		if o := pk.Pkg.Scope().Lookup(name); o != nil {
			if tn, ok := o.(*types.TypeName); ok {
				return tn.Type()
			}
		}
	}
	env.fail("unknown type %q", s)
	return tInt
}

// trGoal translates a proof goal, skolemizing positive `forall i int` with pre-declared constants
// (the same constants at which the assumptions' quantifiers are instantiated).
func (env *exprEnv) trGoal(x *Expr) typedTerm {
	if len(env.goalSk) == 0 {
		return env.tr(x)
	}
	switch x.op {
	case "binary":
		switch x.name {
		case "==>":
			if h := x.args[0]; h.op == "exists" && len(h.vars) == 1 && isInteger(env.resolveType(h.vars[0].typ)) {
				// an existential hypothesis (or a chain of them): each witness becomes a named constant, and the declared
				// loop invariants are instantiated at those constants (the solver cannot name its own Skolem constant in
				// those instances)
				type savedVar struct {
					name string
					old  typedTerm
					had  bool
				}
				var sv []savedVar
				var cs []Term
				hyps := []Term{}
				for h.op == "exists" && len(h.vars) == 1 && isInteger(env.resolveType(h.vars[0].typ)) {
					env.g.nHsk++
					c := fmt.Sprintf("hsk!%d", env.g.nHsk)
					env.g.declare(fmt.Sprintf("(declare-fun %s () Int)", c))
					old, had := env.vars[h.vars[0].name]
					sv = append(sv, savedVar{h.vars[0].name, old, had})
					env.vars[h.vars[0].name] = typedTerm{t: c, typ: tInt}
					cs = append(cs, c)
					hyps = append(hyps, "(inr64 "+c+")")
					h = h.args[0]
				}
				saved := env.instAt
				env.instAt = append(append(append([]Term{}, env.hypInst...), env.goalSk...), cs...)
				a := env.tr(h)
				env.instAt = saved
				for k := len(sv) - 1; k >= 0; k-- {
					if sv[k].had {
						env.vars[sv[k].name] = sv[k].old
					} else {
						delete(env.vars, sv[k].name)
					}
				}
				hyps = append(hyps, a.t)
				env.witnesses = append(env.witnesses, cs...)
				if env.e == nil {
					b := env.trGoal(x.args[1])
					return typedTerm{t: implies(and(hyps...), b.t), typ: tBool}
				}
				root := env.e.root()
				savedExtra := root.extraInst
				root.extraInst = append(append([]Term{}, savedExtra...), cs...)
				root.reinst = true
				for _, rec := range root.invRecords {
					hyps = append(hyps, implies(rec.reach, env.e.invExpr(rec.expr, rec.head, rec.cur, true)))
				}
				root.reinst = false
				root.extraInst = savedExtra
				// ... and so are the automatic loop summaries
				for _, sm := range root.summaries {
					if sm.nested {
						continue
					}
					lo, hi := sm.init, sm.K
					if sm.shift == 1 {
						lo, hi = "(+ "+sm.init+" 1)", "(+ "+sm.K+" 1)"
					}
					for _, c := range cs {
						hyps = append(hyps, implies(and(sm.reach, "(<= "+lo+" "+c+")", "(< "+c+" "+hi+")"), strings.ReplaceAll(sm.cont, "@J@", c)))
					}
				}
				b := env.trGoal(x.args[1])
				return typedTerm{t: implies(and(hyps...), b.t), typ: tBool}
			}
			// the goal first: it may introduce named witnesses, at which the hypotheses are then instantiated as well
			b := env.trGoal(x.args[1])
			saved := env.instAt
			env.instAt = append(append(append([]Term{}, env.hypInst...), env.goalSk...), env.witnesses...)
			a := env.tr(x.args[0])
			env.instAt = saved
			return typedTerm{t: implies(a.t, b.t), typ: tBool}
		case "&&":
			a := env.trGoal(x.args[0])
			b := env.trGoal(x.args[1])
			return typedTerm{t: and(a.t, b.t), typ: tBool}
		case "||":
			// a positive disjunction: each side in goal mode (candidate witnesses for its existentials)
			a := env.trGoal(x.args[0])
			b := env.trGoal(x.args[1])
			return typedTerm{t: or(a.t, b.t), typ: tBool}
		case "==":
			// b == (forall ...) is proved as two implications, so that the quantifier is skolemized in one
			// direction and instantiated in the other (solvers do poorly on an equality with a quantified side)
			if x.args[0].op == "forall" || x.args[1].op == "forall" || x.args[0].op == "exists" || x.args[1].op == "exists" {
				imp := func(a, b *Expr) *Expr { return &Expr{op: "binary", name: "==>", args: []*Expr{a, b}} }
				l := env.trGoal(imp(x.args[0], x.args[1]))
				r := env.trGoal(imp(x.args[1], x.args[0]))
				return typedTerm{t: and(l.t, r.t), typ: tBool}
			}
		}
	case "forall":
		allInt := len(x.vars) >= 1
		for _, v := range x.vars {
			if !isInteger(env.resolveType(v.typ)) {
				allInt = false
			}
		}
		if allInt && env.skNext+len(x.vars) <= len(env.goalSk) {
			type savedVar struct {
				name string
				old  typedTerm
				had  bool
			}
			var sv []savedVar
			var rng []Term
			for _, v := range x.vars {
				c := env.goalSk[env.skNext]
				env.skNext++
				old, had := env.vars[v.name]
				sv = append(sv, savedVar{v.name, old, had})
				env.vars[v.name] = typedTerm{t: c, typ: tInt}
				rng = append(rng, "(inr64 "+c+")")
			}
			b := env.trGoal(x.args[0])
			for _, v := range sv {
				if v.had {
					env.vars[v.name] = v.old
				} else {
					delete(env.vars, v.name)
				}
			}
			return typedTerm{t: implies(and(rng...), b.t), typ: tBool}
		}
	case "exists":
		// a positive existential over one integer: besides the quantified form, the candidate witnesses known to the
		// translation (loop iteration indices) are offered as explicit disjuncts; each disjunct gets its own goal
		// constants for inner universals (sharing one constant between disjuncts would be unsound), so candidates are
		// used only while constants remain
		if len(x.vars) == 1 && isInteger(env.resolveType(x.vars[0].typ)) && (len(env.hypInst)+len(env.witnesses) > 0 || (env.e != nil && len(env.e.root().concatLens) > 0)) {
			disj := []Term{env.tr(x).t}
			old, had := env.vars[x.vars[0].name]
			var cands []Term
			for k := len(env.witnesses) - 1; k >= 0; k-- { // the most recent witness first
				cands = append(cands, env.witnesses[k])
			}
			if env.e != nil {
				// positions shifted by a concatenation: the goal constants in use, moved by the length of the left part
				for _, L := range env.e.root().concatLens {
					for k := 0; k < env.skNext && k < len(env.goalSk); k++ {
						cands = append(cands, "(- "+env.goalSk[k]+" "+L+")", "(+ "+env.goalSk[k]+" "+L+")")
					}
				}
			}
			if env.e != nil && env.e.root().existsInv() && env.stepGoal {
				// (only in the preservation goal of an invariant, where an iteration has just appended the element, and only
				// for an existential that indexes a slice of the same sort: every candidate multiplies the disjuncts)
				for _, c := range env.e.root().appendAt {
					if i := strings.Index(c, "(len_"); i >= 0 {
						if j := strings.Index(c[i+5:], " "); j > 0 && strings.Contains(disj[0], "(arr_"+c[i+5:i+5+j]+" ") {
							cands = append(cands, c)
						}
					}
				}
			}
			if env.e != nil && len(env.e.root().sorts) > 0 {
				// after a sort, the new position of an element known by a named witness of its old position
				var moved []Term
				for k := range env.e.root().sorts {
					for _, c := range append(append([]Term{}, env.witnesses...), env.hypInst...) {
						if strings.HasPrefix(c, "ask!") || strings.HasPrefix(c, "hsk!") {
							moved = append(moved, fmt.Sprintf("(sortinv%d %s)", k, c))
						}
					}
				}
				cands = append(cands, moved...)
			}
			for n, cand := range append(cands, env.hypInst...) {
				env.vars[x.vars[0].name] = typedTerm{t: cand, typ: tInt}
				if env.skNext >= len(env.goalSk) {
					// no goal constants left for inner universals: the instance keeps its quantifiers
					if n < 12 {
						disj = append(disj, env.tr(x.args[0]).t)
					}
					continue
				}
				disj = append(disj, env.trGoal(x.args[0]).t)
			}
			if had {
				env.vars[x.vars[0].name] = old
			} else {
				delete(env.vars, x.vars[0].name)
			}
			return typedTerm{t: or(disj...), typ: tBool}
		}
	case "call":
		if x.args[0].op == "ident" && env.pkg != nil {
			if sf := env.w.specs[shortPkg(env.pkg.Pkg)][x.args[0].name]; sf != nil && !sf.rec && len(x.args)-1 == len(sf.params) && hasQuantifier(sf.body) {
				// only a spec with quantifiers gains from being unfolded in goal mode; the others stay define-funs
				sub := &exprEnv{g: env.g, w: env.w, pkg: env.w.byShort[sf.pkg], vars: map[string]typedTerm{}, goalSk: env.goalSk, skNext: env.skNext}
				for i, p := range sf.params {
					a := env.tr(x.args[i+1])
					sub.vars[p.name] = typedTerm{t: a.t, typ: sub.resolveType(p.typ)}
				}
				r := sub.trGoal(sf.body)
				env.skNext = sub.skNext
				if sub.err != "" {
					env.fail("spec %s: %s", sf.name, sub.err)
				}
				return r
			}
		}
	}
	return env.tr(x)
}

// trAssume translates an assumed formula.  An existential in positive position that is not under a binder is
// skolemized by a named constant (sound for an assumption), so that the goal's quantified hypotheses can be
// instantiated at the witness and the witness offered as a candidate for existential goals; the solvers cannot
// name their own Skolem constants in the explicit instances the translation emits.
func (env *exprEnv) trAssume(x *Expr) typedTerm {
	if env.e == nil {
		return env.tr(x)
	}
	switch x.op {
	case "binary":
		switch x.name {
		case "&&":
			a := env.trAssume(x.args[0])
			b := env.trAssume(x.args[1])
			return typedTerm{t: and(a.t, b.t), typ: tBool}
		case "==>":
			// explicit instantiation only makes sense for quantifiers of positive polarity
			saved := env.instAt
			env.instAt = nil
			a := env.tr(x.args[0])
			env.instAt = saved
			b := env.trAssume(x.args[1])
			return typedTerm{t: implies(a.t, b.t), typ: tBool}
		case "||":
			a := env.trAssume(x.args[0])
			b := env.trAssume(x.args[1])
			return typedTerm{t: or(a.t, b.t), typ: tBool}
		case "==":
			for k := 0; k < 2; k++ {
				if q := x.args[k]; q.op == "exists" {
					imp := func(a, b *Expr) *Expr { return &Expr{op: "binary", name: "==>", args: []*Expr{a, b}} }
					l := env.trAssume(imp(x.args[1-k], q))
					r := env.tr(imp(q, x.args[1-k]))
					return typedTerm{t: and(l.t, r.t), typ: tBool}
				}
			}
		}
	case "forall":
		// besides the quantified formula and its plain instances: the instances at the goal constants with their
		// existentials named (each instance is a closed formula, so naming its witnesses is sound)
		if len(x.vars) == 1 && isInteger(env.resolveType(x.vars[0].typ)) && env.e != nil && env.instDepth == 0 {
			parts := []Term{env.tr(x).t}
			// (grouped invariants only: for a goal that does not mention the goal constants the extra instances are noise
			// that can cost the proof, seen on npm's Contains, whose invariant is in every obligation of the function)
			if hasExists(x.args[0]) && env.e.root().curGroup != "" {
				old, had := env.vars[x.vars[0].name]
				// the goal constant a goal of the same quantifier shape uses at this nesting depth
				if sk := env.e.root().goalSk; env.assumeDepth < len(sk) {
					// outermost universal: every goal constant (the goal may bind this position second); nested ones: the
					// constant of that depth only (all combinations made the candidate lists explode)
					ats := []Term{sk[env.assumeDepth]}
					if env.assumeDepth == 0 {
						ats = sk
					}
					for _, at := range ats {
						env.assumeDepth++
						env.vars[x.vars[0].name] = typedTerm{t: at, typ: tInt}
						parts = append(parts, implies("(inr64 "+at+")", env.trAssume(x.args[0]).t))
						env.assumeDepth--
					}
				}
				if had {
					env.vars[x.vars[0].name] = old
				} else {
					delete(env.vars, x.vars[0].name)
				}
			}
			return typedTerm{t: and(parts...), typ: tBool}
		}
	case "exists":
		if len(x.vars) == 1 && isInteger(env.resolveType(x.vars[0].typ)) {
			env.g.nHsk++
			c := fmt.Sprintf("ask!%d", env.g.nHsk)
			env.g.declare(fmt.Sprintf("(declare-fun %s () Int)", c))
			old, had := env.vars[x.vars[0].name]
			env.vars[x.vars[0].name] = typedTerm{t: c, typ: tInt}
			saved := env.instAt
			env.instAt = append(append([]Term{}, saved...), c)
			b := env.trAssume(x.args[0])
			env.instAt = saved
			if had {
				env.vars[x.vars[0].name] = old
			} else {
				delete(env.vars, x.vars[0].name)
			}
			if root := env.e.root(); !root.reinst {
				root.assumeWit = append(root.assumeWit, c)
				if root.witGroup == nil {
					root.witGroup = map[Term]string{}
				}
				root.witGroup[c] = root.curGroup
			}
			return typedTerm{t: and("(inr64 "+c+")", b.t), typ: tBool}
		}
	}
	return env.tr(x)
}

func hasQuantifier(x *Expr) bool {
	if x == nil {
		return false
	}
	if x.op == "exists" || x.op == "forall" {
		return true
	}
	for _, a := range x.args {
		if hasQuantifier(a) {
			return true
		}
	}
	return false
}

func hasExists(x *Expr) bool {
	if x == nil {
		return false
	}
	if x.op == "exists" {
		return true
	}
	for _, a := range x.args {
		if hasExists(a) {
			return true
		}
	}
	return false
}

func (env *exprEnv) tr(x *Expr) typedTerm {
	g := env.g
	switch x.op {
	case "int":
		return typedTerm{t: x.ival, typ: tInt}
	case "str":
		return typedTerm{t: g.lit(x.sval), typ: tStr}
	case "bool":
		return typedTerm{t: x.name, typ: tBool}
	case "nil":
		return typedTerm{t: "nil", typ: types.Typ[types.UntypedNil]}
	case "ident":
		if v, ok := env.vars[x.name]; ok {
			return v
		}
		if strings.HasPrefix(x.name, "arg") && env.args != nil {
			if i, err := strconv.Atoi(x.name[3:]); err == nil && i < len(env.args) {
				return env.args[i]
			}
		}
		if v, ok := env.extra[x.name]; ok {
			return v
		}
		if x.name == "result" && len(env.result) > 0 {
			return env.result[0]
		}
		if strings.HasPrefix(x.name, "result") {
			if i, err := strconv.Atoi(x.name[6:]); err == nil && i < len(env.result) {
				return env.result[i]
			}
		}
		// package-level constant
		if env.pkg != nil {
			if o := env.pkg.Pkg.Scope().Lookup(x.name); o != nil {
				if c, ok := o.(*types.Const); ok {
					switch c.Val().Kind() {
					case constant.String:
						return typedTerm{t: g.lit(constant.StringVal(c.Val())), typ: tStr}
					case constant.Int:
						return typedTerm{t: intLit(c.Val().ExactString()), typ: tInt}
					}
				}
				if v, ok := o.(*types.Var); ok {
					if gl, ok := env.pkg.Members[x.name].(*ssa.Global); ok {
						tmp := &Exec{g: g, w: env.w}
						return typedTerm{t: tmp.globalTerm(gl), typ: v.Type()}
					}
				}
			}
		}
		switch x.name {
		case "strings", "strconv", "unicode", "lib":
			return typedTerm{pkgName: x.name}
		}
		if env.w.byShort[x.name] != nil {
			return typedTerm{pkgName: x.name}
		}
		return env.fail("unknown identifier %q", x.name)
	case "field":
		base := env.tr(x.args[0])
		if base.pkgName != "" {
			return typedTerm{pkgName: base.pkgName + "." + x.name}
		}
		if len(base.tup) > 0 {
			if i, err := strconv.Atoi(x.name); err == nil && i < len(base.tup) {
				return base.tup[i]
			}
		}
		return env.field(base, x.name)
	case "index":
		base := env.tr(x.args[0])
		idx := env.tr(x.args[1])
		switch bt := base.typ.Underlying().(type) {
		case *types.Basic:
			return typedTerm{t: "(str_at " + base.t + " " + idx.t + ")", typ: types.Typ[types.Byte]}
		case *types.Slice:
			s := g.sortOf(base.typ)
			tm := fmt.Sprintf("(select (arr_%s %s) (+ (off_%s %s) %s))", s, base.t, s, base.t, idx.t)
			env.idxTerms = append(env.idxTerms, tm)
			return typedTerm{t: tm, typ: bt.Elem()}
		case *types.Map:
			s := g.sortOf(base.typ)
			// Go semantics: a missing key reads as the zero value
			return typedTerm{t: fmt.Sprintf("(ite (select (has_%s %s) %s) (select (val_%s %s) %s) %s)", s, base.t, idx.t, s, base.t, idx.t, g.zero(bt.Elem())), typ: bt.Elem()}
		case *types.Array:
			return typedTerm{t: fmt.Sprintf("(select %s %s)", base.t, idx.t), typ: bt.Elem()}
		}
		return env.fail("cannot index %s", base.typ)
	case "slice":
		base := env.tr(x.args[0])
		lo := "0"
		if x.args[1] != nil {
			lo = env.tr(x.args[1]).t
		}
		switch base.typ.Underlying().(type) {
		case *types.Basic:
			hi := "(str_len " + base.t + ")"
			if x.args[2] != nil {
				hi = env.tr(x.args[2]).t
			}
			return typedTerm{t: fmt.Sprintf("(str_sub %s %s %s)", base.t, lo, hi), typ: tStr}
		case *types.Slice:
			s := g.sortOf(base.typ)
			hi := "(len_" + s + " " + base.t + ")"
			if x.args[2] != nil {
				hi = env.tr(x.args[2]).t
			}
			return typedTerm{t: fmt.Sprintf("(mk_%s false (arr_%s %s) (+ (off_%s %s) %s) (- %s %s))", s, s, base.t, s, base.t, lo, hi, lo), typ: base.typ}
		}
		return env.fail("cannot slice %s", base.typ)
	case "unary":
		saved := env.instAt
		if x.name == "!" {
			env.instAt = nil
		}
		a := env.tr(x.args[0])
		env.instAt = saved
		if x.name == "!" {
			return typedTerm{t: not(a.t), typ: tBool}
		}
		return typedTerm{t: "(- " + a.t + ")", typ: a.typ}
	case "cond":
		c, a, b := env.tr(x.args[0]), env.tr(x.args[1]), env.tr(x.args[2])
		return typedTerm{t: ite(c.t, a.t, b.t), typ: a.typ}
	case "binary":
		return env.binary(x)
	case "forall", "exists":
		saved := map[string]typedTerm{}
		var ps []string
		var guards []Term
		tmp := &Exec{g: g, w: env.w}
		for _, v := range x.vars {
			t := env.resolveType(v.typ)
			nm := "q!" + v.name
			if old, ok := env.vars[v.name]; ok {
				saved[v.name] = old
			}
			env.vars[v.name] = typedTerm{t: nm, typ: t}
			ps = append(ps, "("+nm+" "+g.sortOf(t)+")")
			guards = append(guards, tmp.typeInv(t, nm))
		}
		mark := len(env.idxTerms)
		savedTrig := env.triggers
		env.triggers = nil
		savedInst := env.instAt
		if env.e != nil && env.e.root().existsInv() && x.op == "forall" && !env.fullNested {
			// (functions with existential invariants have many instantiation points: the body of the quantified form
			// itself carries no explicit instances of inner quantifiers; the explicit instances below do)
			env.instAt = nil
		}
		body := env.tr(x.args[0])
		env.instAt = savedInst
		trig := env.triggers
		env.triggers = savedTrig
		// patterns: index terms that mention the bound variables (all of them must be covered)
		var pats []string
		covered := map[string]bool{}
		for _, it := range env.idxTerms[mark:] {
			uses := false
			for _, v := range x.vars {
				for _, tok := range tokenize(it) {
					if tok == "q!"+v.name {
						uses = true
						covered[v.name] = true
					}
				}
			}
			for _, tok := range tokenize(it) {
				if strings.HasPrefix(tok, "q!") {
					if _, bound := env.vars[tok[2:]]; !bound {
						uses = false // mentions a variable of an inner quantifier
					}
				}
			}
			if uses && !strings.Contains(it, "ite") {
				dup := false
				for _, p := range pats {
					if p == it {
						dup = true
					}
				}
				if !dup {
					pats = append(pats, it)
				}
			}
		}
		for _, v := range x.vars {
			delete(env.vars, v.name)
			if old, ok := saved[v.name]; ok {
				env.vars[v.name] = old
			}
		}
		if x.op == "forall" && len(env.instAt) > 0 && len(x.vars) == 1 && isInteger(env.resolveType(x.vars[0].typ)) {
			// explicit instances at the given index terms, in addition to the quantified formula
			var insts []Term
			saveI := env.instAt
			// inside an instance, a directly nested quantifier is instantiated too (pairs of index terms: needed for
			// invariants of the shape forall g :: forall i :: ...), but not deeper
			env.instAt = nil
			if env.instDepth == 0 && len(saveI) <= 8 {
				env.instAt = saveI
			}
			if env.instDepth == 0 && env.e != nil && env.e.root().existsInv() && !env.fullNested {
				// functions with existential invariants carry many instantiation points (iteration indices, witnesses):
				// the nested level keeps the goal constants and named witnesses only
				env.instAt = nil
				for _, t := range saveI {
					if strings.HasPrefix(t, "gsk!") || strings.HasPrefix(t, "hsk!") {
						env.instAt = append(env.instAt, t)
					}
				}
			}
			env.instDepth++
			defer func() { env.instDepth-- }()
			for _, at := range saveI {
				old, had := env.vars[x.vars[0].name]
				env.vars[x.vars[0].name] = typedTerm{t: at, typ: tInt}
				insts = append(insts, env.tr(x.args[0]).t)
				if had {
					env.vars[x.vars[0].name] = old
				} else {
					delete(env.vars, x.vars[0].name)
				}
			}
			env.instAt = saveI
			q := fmt.Sprintf("(forall (%s) %s)", strings.Join(ps, " "), implies(and(guards...), body.t))
			return typedTerm{t: and(append([]Term{q}, insts...)...), typ: tBool}
		}
		if x.op == "forall" && len(trig) > 0 {
			inner := implies(and(guards...), body.t)
			var ps2 []string
			for _, grp := range trig {
				ps2 = append(ps2, ":pattern ("+strings.Join(grp, " ")+")")
			}
			return typedTerm{t: fmt.Sprintf("(forall (%s) (! %s %s))", strings.Join(ps, " "), inner, strings.Join(ps2, " ")), typ: tBool}
		}
		if x.op == "forall" {
			inner := implies(and(guards...), body.t)
			if len(pats) > 0 && len(covered) == len(x.vars) && len(x.vars) == 1 {
				var ps2 []string
				for _, p := range pats {
					ps2 = append(ps2, ":pattern ("+p+")")
				}
				return typedTerm{t: fmt.Sprintf("(forall (%s) (! %s %s))", strings.Join(ps, " "), inner, strings.Join(ps2, " ")), typ: tBool}
			}
			return typedTerm{t: fmt.Sprintf("(forall (%s) %s)", strings.Join(ps, " "), inner), typ: tBool}
		}
		return typedTerm{t: fmt.Sprintf("(exists (%s) %s)", strings.Join(ps, " "), and(append(guards, body.t)...)), typ: tBool}
	case "call":
		return env.call(x)
	}
	return env.fail("unsupported expression %s", x.op)
}

func (env *exprEnv) field(base typedTerm, name string) typedTerm {
	g := env.g
	t := base.typ
	v := base.t
	if pt, ok := t.Underlying().(*types.Pointer); ok {
		v = "(deref_" + g.sortOf(t) + " " + v + ")"
		t = pt.Elem()
	}
	st, nt := structOf(t)
	if st == nil {
		// method value on named type?
		return env.method(base, name)
	}
	for i := 0; i < st.NumFields(); i++ {
		if st.Field(i).Name() == name {
			return typedTerm{t: "(" + g.fieldAcc(g.sortOf(nt), name) + " " + v + ")", typ: st.Field(i).Type()}
		}
	}
	return env.method(base, name)
}

func (env *exprEnv) method(base typedTerm, name string) typedTerm {
	// interface or type-parameter receiver: abstract method symbol (same as the translator's invoke)
	if m := ifaceMethod(base.typ, name); m != nil {
		b := base
		return typedTerm{imeth: m, recv: &b}
	}
	// method of the receiver's named type
	t := base.typ
	ms := env.w.prog.MethodSets.MethodSet(t)
	for i := 0; i < ms.Len(); i++ {
		if ms.At(i).Obj().Name() == name {
			fn := env.w.prog.MethodValue(ms.At(i))
			if fn != nil {
				b := base
				return typedTerm{fn: fn, recv: &b}
			}
		}
	}
	return env.fail("no field or method %q on %s", name, base.typ)
}

func (env *exprEnv) binary(x *Expr) typedTerm {
	op := x.name
	switch op {
	case "&&", "||", "==>", "<==>":
		// explicit instantiation (instAt) only makes sense for quantifiers of positive polarity
		saved := env.instAt
		if op == "==>" || op == "<==>" {
			env.instAt = nil
		}
		a := env.tr(x.args[0])
		env.instAt = saved
		if op == "<==>" {
			env.instAt = nil
		}
		b := env.tr(x.args[1])
		env.instAt = saved
		switch op {
		case "&&":
			return typedTerm{t: and(a.t, b.t), typ: tBool}
		case "||":
			return typedTerm{t: or(a.t, b.t), typ: tBool}
		case "==>":
			return typedTerm{t: implies(a.t, b.t), typ: tBool}
		default:
			return typedTerm{t: eq(a.t, b.t), typ: tBool}
		}
	}
	a, b := env.tr(x.args[0]), env.tr(x.args[1])
	if env.err != "" {
		return typedTerm{t: "true", typ: tBool}
	}
	// nil comparisons
	if a.t == "nil" && a.typ == types.Typ[types.UntypedNil] {
		a, b = b, a
	}
	if b.t == "nil" && b.typ == types.Typ[types.UntypedNil] {
		var isnil Term
		s := env.g.sortOf(a.typ)
		switch a.typ.Underlying().(type) {
		case *types.Pointer:
			isnil = "((_ is nil_" + s + ") " + a.t + ")"
		case *types.Slice, *types.Map:
			isnil = "(nil_" + s + " " + a.t + ")"
		case *types.Interface:
			if s == "Err" {
				env.g.needErr()
				isnil = eq(a.t, "err_nil")
			} else if s == "Any" {
				isnil = eq(a.t, "any_nil")
			} else {
				return env.fail("nil comparison on %s", a.typ)
			}
		default:
			return env.fail("nil comparison on %s", a.typ)
		}
		if op == "==" {
			return typedTerm{t: isnil, typ: tBool}
		}
		return typedTerm{t: not(isnil), typ: tBool}
	}
	str := isString(a.typ)
	switch op {
	case "==":
		return typedTerm{t: eq(a.t, b.t), typ: tBool}
	case "!=":
		return typedTerm{t: not(eq(a.t, b.t)), typ: tBool}
	case "<":
		if str {
			return typedTerm{t: "(str_lt " + a.t + " " + b.t + ")", typ: tBool}
		}
		return typedTerm{t: "(< " + a.t + " " + b.t + ")", typ: tBool}
	case ">":
		if str {
			return typedTerm{t: "(str_lt " + b.t + " " + a.t + ")", typ: tBool}
		}
		return typedTerm{t: "(> " + a.t + " " + b.t + ")", typ: tBool}
	case "<=":
		if str {
			return typedTerm{t: "(not (str_lt " + b.t + " " + a.t + "))", typ: tBool}
		}
		return typedTerm{t: "(<= " + a.t + " " + b.t + ")", typ: tBool}
	case ">=":
		if str {
			return typedTerm{t: "(not (str_lt " + a.t + " " + b.t + "))", typ: tBool}
		}
		return typedTerm{t: "(>= " + a.t + " " + b.t + ")", typ: tBool}
	case "+":
		if str {
			return typedTerm{t: "(str_cat " + a.t + " " + b.t + ")", typ: tStr}
		}
		return typedTerm{t: "(+ " + a.t + " " + b.t + ")", typ: a.typ}
	case "-":
		return typedTerm{t: "(- " + a.t + " " + b.t + ")", typ: a.typ}
	case "*":
		return typedTerm{t: "(* " + a.t + " " + b.t + ")", typ: a.typ}
	case "/":
		return typedTerm{t: "(div " + a.t + " " + b.t + ")", typ: a.typ}
	case "%":
		return typedTerm{t: "(mod " + a.t + " " + b.t + ")", typ: a.typ}
	}
	return env.fail("operator %s", op)
}

func (env *exprEnv) call(x *Expr) typedTerm {
	g := env.g
	callee := x.args[0]
	argEs := x.args[1:]
	// builtins
	if callee.op == "ident" {
		switch callee.name {
		case "len":
			a := env.tr(argEs[0])
			switch a.typ.Underlying().(type) {
			case *types.Basic:
				return typedTerm{t: "(str_len " + a.t + ")", typ: tInt}
			case *types.Slice:
				return typedTerm{t: "(len_" + g.sortOf(a.typ) + " " + a.t + ")", typ: tInt}
			}
			return env.fail("len of %s", a.typ)
		case "old":
			// entry value of a parameter that the body reassigns (only differs inside loop invariants)
			if env.entryVars != nil {
				saved := env.vars
				env.vars = env.entryVars
				r := env.tr(argEs[0])
				env.vars = saved
				return r
			}
			return env.tr(argEs[0])
		case "anon":
			// anon(k): the k-th function literal of the function under contract (a constant, as in the translation of the
			// body, where a literal without captured variables passed to library code is an opaque constant)
			if env.e == nil || len(argEs) != 1 || argEs[0].op != "int" {
				return env.fail("anon(k) is only available inside the function's own invariants and local clauses")
			}
			k, _ := strconv.Atoi(argEs[0].ival)
			fn := env.e.root().fn
			if k < 1 || k > len(fn.AnonFuncs) {
				return env.fail("anon(%d): the function has %d literals", k, len(fn.AnonFuncs))
			}
			f := fn.AnonFuncs[k-1]
			return typedTerm{t: env.e.fnConst(f), typ: f.Signature}
		case "ecosystemOf":
			// the concrete value &pkg.Ecosystem{} (not boxed into the interface): for code that uses an ecosystem directly
			if len(argEs) == 1 && argEs[0].op == "str" {
				if p := env.w.byShort[argEs[0].sval]; p != nil {
					if o := p.Pkg.Scope().Lookup("Ecosystem"); o != nil {
						pt := types.NewPointer(o.Type())
						ps := g.sortOf(pt)
						return typedTerm{t: "(ptr_" + ps + " " + g.zero(o.Type()) + ")", typ: pt}
					}
				}
			}
			return env.fail("ecosystemOf(\"pkg\") expects a package name")
		case "ecosystem":
			// the interface value the CLI passes for an ecosystem package: &pkg.Ecosystem{} boxed
			if len(argEs) == 1 && argEs[0].op == "str" {
				if p := env.w.byShort[argEs[0].sval]; p != nil {
					if o := p.Pkg.Scope().Lookup("Ecosystem"); o != nil {
						pt := types.NewPointer(o.Type())
						ps := g.sortOf(pt)
						inner := "(ptr_" + ps + " " + g.zero(o.Type()) + ")"
						return typedTerm{t: g.boxTerm(pt, "I_univers_Ecosystem", inner, env.w), typ: env.w.ecosystemIface()}
					}
				}
			}
			return env.fail("ecosystem(\"pkg\") expects a package name")
		case "theEcosystem":
			if env.pkg != nil {
				if o := env.pkg.Pkg.Scope().Lookup("Ecosystem"); o != nil {
					pt := types.NewPointer(o.Type())
					ps := g.sortOf(pt)
					return typedTerm{t: "(ptr_" + ps + " " + g.zero(o.Type()) + ")", typ: pt}
				}
			}
			return env.fail("no Ecosystem type in this package")
		case "mk":
			// mk(StructType, field values in declaration order): a struct value
			if len(argEs) >= 1 && argEs[0].op == "ident" {
				t := env.resolveType(argEs[0].name)
				if st, nt := structOf(t); st != nil && st.NumFields() == len(argEs)-1 {
					srt := g.sortOf(nt)
					var fs []string
					for _, a := range argEs[1:] {
						fs = append(fs, env.tr(a).t)
					}
					if len(fs) == 0 {
						return typedTerm{t: "mk_" + srt, typ: t}
					}
					return typedTerm{t: "(mk_" + srt + " " + strings.Join(fs, " ") + ")", typ: t}
				}
			}
			return env.fail("mk(Type, fields...) expects a struct type and all its fields")
		case "trigger":
			var grp []Term
			for _, a := range argEs {
				grp = append(grp, env.tr(a).t)
			}
			env.triggers = append(env.triggers, grp)
			return typedTerm{t: "true", typ: tBool}
		case "rune_count", "rune_val", "rune_pos":
			// the runes of a string as `for range` sees them (count, value and byte position of the k-th rune)
			g.needRunes()
			var ts []string
			for _, a := range argEs {
				ts = append(ts, env.tr(a).t)
			}
			want := 2
			if callee.name == "rune_count" {
				want = 1
			}
			if len(ts) != want {
				return env.fail("%s expects %d arguments", callee.name, want)
			}
			return typedTerm{t: "(" + callee.name + " " + strings.Join(ts, " ") + ")", typ: tInt}
		case "runestr":
			// string(r) for a rune r
			return typedTerm{t: g.libApp("string_of_rune", []string{"Int"}, "Str", []Term{env.tr(argEs[0]).t}), typ: tStr}
		case "isdigits":
			g.libDep("isdigits")
			return typedTerm{t: "(L_isdigits " + env.tr(argEs[0]).t + ")", typ: tBool}
		case "numval":
			g.libDep("numval")
			return typedTerm{t: "(L_numval " + env.tr(argEs[0]).t + ")", typ: tInt}
		case "digdots":
			g.libDep("digdots")
			return typedTerm{t: "(L_digdots " + env.tr(argEs[0]).t + ")", typ: tBool}
		case "strlex":
			// enables the first-byte facts about Go's lexicographic string order
			g.libDep("strlex")
			return typedTerm{t: "true", typ: tBool}
		case "sortperm":
			// the permutation the (first) slices.SortFunc call of this function applied: after[i] = before[sortperm(i)]
			if !g.funSeen["sortperm0"] {
				g.funSeen["sortperm0"] = true
				g.declare("(declare-fun sortperm0 (Int) Int)")
			}
			return typedTerm{t: "(sortperm0 " + env.tr(argEs[0]).t + ")", typ: tInt}
		case "itoa":
			g.libDep("itoa")
			return typedTerm{t: "(L_itoa " + env.tr(argEs[0]).t + ")", typ: tStr}
		case "isnum":
			a := env.tr(argEs[0])
			return typedTerm{t: "((_ is any_int) " + a.t + ")", typ: tBool}
		case "isstr":
			a := env.tr(argEs[0])
			return typedTerm{t: "((_ is any_str) " + a.t + ")", typ: tBool}
		case "intof":
			a := env.tr(argEs[0])
			return typedTerm{t: "(int_of " + a.t + ")", typ: tInt}
		case "strof":
			a := env.tr(argEs[0])
			return typedTerm{t: "(str_of " + a.t + ")", typ: tStr}
		case "has":
			// has(m, k): key present in map
			m, k := env.tr(argEs[0]), env.tr(argEs[1])
			return typedTerm{t: fmt.Sprintf("(select (has_%s %s) %s)", g.sortOf(m.typ), m.t, k.t), typ: tBool}
		}
		// spec function
		if env.pkg != nil {
			if sf := env.w.specs[shortPkg(env.pkg.Pkg)][callee.name]; sf != nil {
				return env.specCall(sf, argEs)
			}
			// real function of the package
			if fn := env.w.funcs[shortPkg(env.pkg.Pkg)+"."+callee.name]; fn != nil {
				return env.realCall(fn, nil, argEs)
			}
		}
		return env.fail("unknown function %q", callee.name)
	}
	c := env.tr(callee)
	if c.fn != nil {
		return env.realCall(c.fn, c.recv, argEs)
	}
	if c.imeth != nil {
		return env.ifaceCall(c.imeth, c.recv, argEs)
	}
	if c.pkgName != "" {
		// library function or other repo package's function: pkg.Name
		parts := strings.SplitN(c.pkgName, ".", 2)
		if len(parts) == 2 {
			if p := env.w.byShort[parts[0]]; p != nil {
				if fn := env.w.funcs[parts[0]+"."+parts[1]]; fn != nil {
					return env.realCall(fn, nil, argEs)
				}
				if sf := env.w.specs[parts[0]][parts[1]]; sf != nil {
					save := env.pkg
					env.pkg = p
					r := env.specCall(sf, argEs)
					env.pkg = save
					return r
				}
			}
			if c.pkgName == "strconv.Atoi" && len(argEs) == 1 {
				g.libDep("strconv.Atoi#0")
				a := env.tr(argEs[0]).t
				v := typedTerm{t: "(L_strconv_Atoi_0 " + a + ")", typ: tInt}
				er := typedTerm{t: "(L_strconv_Atoi_1 " + a + ")", typ: types.Universe.Lookup("error").Type()}
				return typedTerm{t: v.t, typ: v.typ, tup: []typedTerm{v, er}}
			}
			if sig, ok := libSigs[c.pkgName]; ok {
				g.libDep(c.pkgName)
				var as []Term
				for _, a := range argEs {
					as = append(as, env.tr(a).t)
				}
				return typedTerm{t: "(L_" + sanitize(c.pkgName) + " " + strings.Join(as, " ") + ")", typ: sortType(sig.res)}
			}
		}
		return env.fail("unknown function %s", c.pkgName)
	}
	return env.fail("cannot call this expression")
}

// ifaceMethod finds method name in the method set of an interface or of a type parameter's constraint.
func ifaceMethod(t types.Type, name string) *types.Func {
	var it *types.Interface
	switch tt := t.(type) {
	case *types.TypeParam:
		it, _ = tt.Constraint().Underlying().(*types.Interface)
	default:
		it, _ = t.Underlying().(*types.Interface)
	}
	if it == nil {
		return nil
	}
	for i := 0; i < it.NumMethods(); i++ {
		if it.Method(i).Name() == name {
			return it.Method(i)
		}
	}
	return nil
}

func (env *exprEnv) ifaceCall(m *types.Func, recv *typedTerm, argEs []*Expr) typedTerm {
	g := env.g
	rs := g.sortOf(recv.typ)
	args := []Term{recv.t}
	sorts := []string{rs}
	sig := m.Type().(*types.Signature)
	for i, a := range argEs {
		at := env.tr(a)
		args = append(args, at.t)
		if i < sig.Params().Len() {
			sorts = append(sorts, g.sortOf(sig.Params().At(i).Type()))
		} else {
			sorts = append(sorts, g.sortOf(at.typ))
		}
	}
	n := sig.Results().Len()
	var tup []typedTerm
	for i := 0; i < n; i++ {
		name := fmt.Sprintf("M_%s_%s", sanitize(rs), m.Name())
		if n > 1 {
			name += fmt.Sprintf("_%d", i)
		}
		rsort := g.sortOf(sig.Results().At(i).Type())
		if !g.funSeen[name] {
			g.funSeen[name] = true
			g.declare(fmt.Sprintf("(declare-fun %s (%s) %s)", name, strings.Join(sorts, " "), rsort))
			g.ifaceAxioms(name, m.Name(), i, sorts, rsort)
		}
		tup = append(tup, typedTerm{t: "(" + name + " " + strings.Join(args, " ") + ")", typ: sig.Results().At(i).Type()})
	}
	if n == 1 {
		return tup[0]
	}
	if n == 0 {
		return env.fail("method %s has no result", m.Name())
	}
	return typedTerm{t: tup[0].t, typ: tup[0].typ, tup: tup}
}

func sortType(s string) types.Type {
	switch s {
	case "Int":
		return tInt
	case "Bool":
		return tBool
	case "Str":
		return tStr
	case "L_Str":
		return types.NewSlice(tStr)
	case "Err":
		return types.Universe.Lookup("error").Type()
	}
	return tInt
}

func (env *exprEnv) realCall(fn *ssa.Function, recv *typedTerm, argEs []*Expr) typedTerm {
	var args []Term
	if recv != nil {
		args = append(args, recv.t)
	}
	for _, a := range argEs {
		args = append(args, env.tr(a).t)
	}
	if len(args) != len(fn.Params) {
		return env.fail("call of %s: %d args, want %d", fn.Name(), len(args), len(fn.Params))
	}
	res := env.g.useCallee(fn, args)
	sig := fn.Signature
	if len(res) == 1 {
		return typedTerm{t: res[0], typ: sig.Results().At(0).Type()}
	}
	var tup []typedTerm
	for i, r := range res {
		tup = append(tup, typedTerm{t: r, typ: sig.Results().At(i).Type()})
	}
	if len(tup) == 0 {
		return env.fail("call of %s has no result", fn.Name())
	}
	return typedTerm{t: tup[0].t, typ: tup[0].typ, tup: tup}
}

// specCall: spec functions are emitted as define-fun (or define-fun-rec) once per query.
func (env *exprEnv) specCall(sf *SpecFunc, argEs []*Expr) typedTerm {
	g := env.g
	if len(env.instAt) > 0 && !sf.rec && len(argEs) == len(sf.params) {
		// inline so that quantifiers inside the spec body can be instantiated
		sub := &exprEnv{g: g, w: env.w, pkg: env.w.byShort[sf.pkg], vars: map[string]typedTerm{}, instAt: env.instAt}
		for i, p := range sf.params {
			a := env.tr(argEs[i])
			sub.vars[p.name] = typedTerm{t: a.t, typ: sub.resolveType(p.typ)}
		}
		r := sub.tr(sf.body)
		if sub.err != "" {
			env.fail("spec %s: %s", sf.name, sub.err)
		}
		return typedTerm{t: r.t, typ: env.resolveType(sf.ret)}
	}
	sym := "spec_" + sanitize(sf.pkg) + "_" + sanitize(sf.name)
	rt := env.resolveType(sf.ret)
	if !g.funSeen[sym] {
		g.funSeen[sym] = true
		sub := &exprEnv{g: g, w: env.w, pkg: env.w.byShort[sf.pkg], vars: map[string]typedTerm{}}
		var ps []string
		for _, p := range sf.params {
			pt := sub.resolveType(p.typ)
			nm := "s!" + p.name
			sub.vars[p.name] = typedTerm{t: nm, typ: pt}
			ps = append(ps, "("+nm+" "+g.sortOf(pt)+")")
		}
		if sf.rec {
			// declare first so the body can refer to it
			var ss []string
			for _, p := range sf.params {
				ss = append(ss, g.sortOf(sub.resolveType(p.typ)))
			}
			_ = ss
		}
		body := sub.tr(sf.body)
		if sub.err != "" {
			env.fail("spec %s: %s", sf.name, sub.err)
		}
		kw := "define-fun"
		if sf.rec {
			kw = "define-fun-rec"
		}
		g.declare(fmt.Sprintf("(%s %s (%s) %s %s)", kw, sym, strings.Join(ps, " "), g.sortOf(rt), body.t))
	}
	var as []Term
	for _, a := range argEs {
		as = append(as, env.tr(a).t)
	}
	if len(as) == 0 {
		return typedTerm{t: sym, typ: rt}
	}
	return typedTerm{t: "(" + sym + " " + strings.Join(as, " ") + ")", typ: rt}
}

func isBoolType(t types.Type) bool {
	b, ok := t.Underlying().(*types.Basic)
	return ok && b.Kind() == types.Bool
}

package main

import (
	"fmt"
	"go/constant"
	"go/token"
	"go/types"
	"os"
	"path/filepath"
	"sort"
	"strings"

	"golang.org/x/tools/go/packages"
	"golang.org/x/tools/go/ssa"
	"golang.org/x/tools/go/ssa/ssautil"
)

type globalInit struct {
	regex    string
	mapLit   map[string]Term // string-keyed map literal with constant values (as SMT terms; strings as raw with prefix)
	mapStr   map[string]string
	sliceLit []string
	written  bool
}

type World struct {
	repo      string
	prog      *ssa.Program
	fset      *token.FileSet
	pkgs      []*ssa.Package
	byShort   map[string]*ssa.Package
	funcs     map[string]*ssa.Function // by key
	allFuncs  []*ssa.Function
	contracts map[*ssa.Function]*Contract
	cfiles    map[string]*ContractFile
	specs     map[string]map[string]*SpecFunc
	lemmas    []*Lemma
	loopCache map[*ssa.Function]*loopInfo
	tags      map[string]int
	ginit     map[*ssa.Global]*globalInit
	loadErrs  []string
	findings  map[string]bool
	names     map[*ssa.Function]map[string]ssa.Value
	mutGlobals map[*ssa.Global]bool
}

func loadWorld(repo string) (*World, error) {
	cfg := &packages.Config{Mode: packages.LoadAllSyntax, Dir: repo, BuildFlags: []string{"-tags=verif"}, Env: append(os.Environ(), "GOFLAGS=-mod=mod", "GOPROXY=off")}
	pkgs, err := packages.Load(cfg, "./...")
	if err != nil {
		return nil, err
	}
	var errs []string
	packages.Visit(pkgs, nil, func(p *packages.Package) {
		for _, e := range p.Errors {
			errs = append(errs, e.Error())
		}
	})
	if len(errs) > 0 {
		return nil, fmt.Errorf("package errors: %s", strings.Join(errs, "; "))
	}
	prog, spkgs := ssautil.AllPackages(pkgs, ssa.InstantiateGenerics|ssa.GlobalDebug)
	prog.Build()
	w := &World{repo: repo, prog: prog, fset: prog.Fset, byShort: map[string]*ssa.Package{}, funcs: map[string]*ssa.Function{},
		contracts: map[*ssa.Function]*Contract{}, cfiles: map[string]*ContractFile{}, specs: map[string]map[string]*SpecFunc{},
		loopCache: map[*ssa.Function]*loopInfo{}, tags: map[string]int{}, ginit: map[*ssa.Global]*globalInit{}}
	for _, p := range spkgs {
		if p == nil || !isRepoPkg(p.Pkg) {
			continue
		}
		w.pkgs = append(w.pkgs, p)
		w.byShort[shortPkg(p.Pkg)] = p
	}
	sort.Slice(w.pkgs, func(i, j int) bool { return w.pkgs[i].Pkg.Path() < w.pkgs[j].Pkg.Path() })
	for fn := range ssautil.AllFunctions(prog) {
		if !isRepoPkg(pkgOf(fn)) || fn.Blocks == nil {
			continue
		}
		if fn.Synthetic != "" && !strings.Contains(fn.Synthetic, "instance of") {
			if fn.Name() != "init" {
				continue
			}
		}
		if len(fn.TypeArgs()) > 0 {
			continue // instantiations: the generic template is verified once
		}
		w.allFuncs = append(w.allFuncs, fn)
		w.funcs[w.fnKey(fn)] = fn
	}
	sort.Slice(w.allFuncs, func(i, j int) bool { return w.fnKey(w.allFuncs[i]) < w.fnKey(w.allFuncs[j]) })
	// contracts
	for _, p := range w.pkgs {
		dir := w.pkgDir(p)
		if dir == "" {
			continue
		}
		path := filepath.Join(dir, "verif_contracts.go")
		src, err := os.ReadFile(path)
		if err != nil {
			continue
		}
		sp := shortPkg(p.Pkg)
		cf, err := parseContractFile(sp, path, string(src))
		if err != nil {
			return nil, err
		}
		w.cfiles[sp] = cf
		w.specs[sp] = map[string]*SpecFunc{}
		for _, s := range cf.specs {
			w.specs[sp][s.name] = s
		}
		w.lemmas = append(w.lemmas, cf.lemmas...)
		for _, c := range cf.contracts {
			fn := w.funcs[sp+"."+c.key]
			if fn == nil {
				w.loadErrs = append(w.loadErrs, fmt.Sprintf("%s:%d: contract for unknown function %s.%s", path, c.line, sp, c.key))
				continue
			}
			w.contracts[fn] = c
		}
	}
	return w, nil
}

func (w *World) pkgDir(p *ssa.Package) string {
	for _, m := range p.Members {
		if pos := m.Pos(); pos.IsValid() {
			return filepath.Dir(w.fset.Position(pos).Filename)
		}
	}
	return ""
}

// fnKey: "<pkg>.<RelString>" e.g. semver.(*Version).Compare, semver.compareInt, cmd.run$1
func (w *World) fnKey(fn *ssa.Function) string {
	p := pkgOf(fn)
	if o := fn.Origin(); o != nil && len(fn.TypeArgs()) > 0 {
		fn = o
	}
	name := fn.RelString(p)
	if i := strings.Index(name, "["); i >= 0 {
		name = name[:i]
	}
	return shortPkg(p) + "." + name
}

func (w *World) contractOf(fn *ssa.Function) *Contract {
	if o := fn.Origin(); o != nil {
		if c, ok := w.contracts[o]; ok {
			return c
		}
	}
	return w.contracts[fn]
}

func (w *World) pos(p token.Pos) string {
	if !p.IsValid() {
		return "?"
	}
	pp := w.fset.Position(p)
	rel, err := filepath.Rel(w.repo, pp.Filename)
	if err != nil {
		rel = pp.Filename
	}
	return fmt.Sprintf("%s:%d", rel, pp.Line)
}

func (w *World) typeTag(t types.Type) int {
	k := t.String()
	if id, ok := w.tags[k]; ok {
		return id
	}
	id := len(w.tags) + 1
	w.tags[k] = id
	return id
}

// globalInit reads what the package initialiser stores into a global.
func (w *World) globalInit(gl *ssa.Global) *globalInit {
	if gi, ok := w.ginit[gl]; ok {
		return gi
	}
	var gi *globalInit
	init := gl.Pkg.Func("init")
	if init != nil {
		for _, b := range init.Blocks {
			for _, in := range b.Instrs {
				st, ok := in.(*ssa.Store)
				if !ok || st.Addr != gl {
					continue
				}
				gi = &globalInit{}
				switch v := st.Val.(type) {
				case *ssa.Call:
					if f := v.Call.StaticCallee(); f != nil && f.String() == "regexp.MustCompile" {
						if s, ok := constString(v.Call.Args[0]); ok {
							gi.regex = s
						}
					}
				case *ssa.MakeMap:
					gi.mapLit = map[string]Term{}
					gi.mapStr = map[string]string{}
					for _, ref := range *v.Referrers() {
						mu, ok := ref.(*ssa.MapUpdate)
						if !ok {
							continue
						}
						k, ok1 := constString(mu.Key)
						c, ok2 := mu.Value.(*ssa.Const)
						if !ok1 || !ok2 || c.Value == nil {
							gi.mapLit = nil
							break
						}
						switch c.Value.Kind() {
						case constant.Int:
							gi.mapLit[k] = intLit(c.Value.ExactString())
						case constant.Bool:
							gi.mapLit[k] = fmt.Sprint(constant.BoolVal(c.Value))
						case constant.String:
							gi.mapStr[k] = constant.StringVal(c.Value)
							gi.mapLit[k] = "@str:" + constant.StringVal(c.Value)
						default:
							gi.mapLit = nil
						}
						if gi.mapLit == nil {
							break
						}
					}
				case *ssa.Slice:
					// slice literal of strings
					if al, ok := v.X.(*ssa.Alloc); ok {
						var elems []string
						okAll := true
						for _, ref := range *al.Referrers() {
							ia, ok := ref.(*ssa.IndexAddr)
							if !ok {
								continue
							}
							ci, ok := ia.Index.(*ssa.Const)
							if !ok {
								okAll = false
								break
							}
							idx := int(ci.Int64())
							for _, r2 := range *ia.Referrers() {
								if s2, ok := r2.(*ssa.Store); ok {
									sv, ok := constString(s2.Val)
									if !ok {
										okAll = false
										break
									}
									for len(elems) <= idx {
										elems = append(elems, "")
									}
									elems[idx] = sv
								}
							}
						}
						if okAll {
							gi.sliceLit = elems
						}
					}
				}
			}
		}
	}
	w.ginit[gl] = gi
	return gi
}

func (w *World) findingSet() map[string]bool {
	if w.findings == nil {
		w.findings = map[string]bool{}
		for _, f := range loadFindings() {
			w.findings[f.Obligation] = true
		}
	}
	return w.findings
}

func (w *World) lawFindings(f *ssa.Function, ordinal int) map[string]bool {
	suffix := ""
	if ordinal > 1 {
		suffix = fmt.Sprint(ordinal)
	}
	key := w.fnKey(f)
	fs := w.findingSet()
	out := map[string]bool{}
	for _, k := range []string{"range", "refl", "antisym", "trans", "bounded"} {
		if fs[fmt.Sprintf("%s.law%s.%s", key, suffix, k)] {
			out[k] = true
		}
	}
	return out
}

func (w *World) clauseIsFinding(f *ssa.Function, cl *Clause, ordinal int) bool {
	key := w.fnKey(f)
	fs := w.findingSet()
	for _, t := range cl.tags {
		if fs[fmt.Sprintf("%s.post[%s]/%s", key, t, clauseLabel(cl, ordinal))] {
			return true
		}
	}
	return false
}

// localNames maps source names of single-assignment locals to their SSA values (from DebugRef instructions).
func (w *World) localNames(fn *ssa.Function) map[string]ssa.Value {
	if m, ok := w.names[fn]; ok {
		return m
	}
	m := map[string]ssa.Value{}
	multi := map[string]bool{}
	order := map[string][]ssa.Value{}
	for _, b := range fn.Blocks {
		for _, in := range b.Instrs {
			dr, ok := in.(*ssa.DebugRef)
			if !ok || dr.IsAddr {
				continue
			}
			obj := dr.Object()
			if obj == nil {
				continue
			}
			if _, isVar := obj.(*types.Var); !isVar {
				continue
			}
			name := obj.Name()
			if old, ok := m[name]; ok && old != dr.X {
				multi[name] = true
			}
			m[name] = dr.X
			// every distinct definition is also reachable as name#k (k-th value bound to the name, in block order)
			dup := false
			for _, v := range order[name] {
				if v == dr.X {
					dup = true
				}
			}
			if !dup {
				order[name] = append(order[name], dr.X)
			}
		}
	}
	for n := range multi {
		delete(m, n)
		for k, v := range order[n] {
			m[fmt.Sprintf("%s#%d", n, k+1)] = v
		}
	}
	if w.names == nil {
		w.names = map[*ssa.Function]map[string]ssa.Value{}
	}
	w.names[fn] = m
	return m
}

// mutableGlobals: package-level variables written outside their package initialiser (directly, or through
// a map update / element store on the value they hold).  Reads of such variables are havocked.
func (w *World) mutableGlobal(gl *ssa.Global) bool {
	if w.mutGlobals == nil {
		w.mutGlobals = map[*ssa.Global]bool{}
		for _, f := range w.allFuncs {
			if f.Name() == "init" && f.Synthetic != "" {
				continue
			}
			for _, b := range f.Blocks {
				for _, in := range b.Instrs {
					var target ssa.Value
					switch x := in.(type) {
					case *ssa.Store:
						target = x.Addr
					case *ssa.MapUpdate:
						target = x.Map
					default:
						continue
					}
					for target != nil {
						switch t := target.(type) {
						case *ssa.Global:
							w.mutGlobals[t] = true
							target = nil
						case *ssa.FieldAddr:
							target = t.X
						case *ssa.IndexAddr:
							target = t.X
						case *ssa.UnOp:
							target = t.X
						case *ssa.Slice:
							target = t.X
						default:
							target = nil
						}
					}
				}
			}
		}
	}
	return w.mutGlobals[gl]
}

// ecosystemIface: the generic interface type univers.Ecosystem (used only for typing contract expressions).
func (w *World) ecosystemIface() types.Type {
	if p := w.byShort["univers"]; p != nil {
		if o := p.Pkg.Scope().Lookup("Ecosystem"); o != nil {
			return o.Type()
		}
	}
	return types.NewInterfaceType(nil, nil)
}

// repoFunctions returns all repo functions with bodies, sorted by key.
func (w *World) repoFunctions() []*ssa.Function { return w.allFuncs }

var _ = types.Typ

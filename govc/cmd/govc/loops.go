package main

import (
	"fmt"
	"go/token"
	"go/types"
	"sort"
	"strings"

	"golang.org/x/tools/go/ssa"
)

type loop struct {
	head    *ssa.BasicBlock
	blocks  map[*ssa.BasicBlock]bool
	latches []*ssa.BasicBlock
	ordinal int // 1-based, in order of header block index
	parent  *loop
}

type loopInfo struct {
	rpo         []*ssa.BasicBlock
	header      map[*ssa.BasicBlock]*loop
	loops       []*loop
	irreducible bool
}

func (li *loopInfo) isBackEdge(from, to *ssa.BasicBlock) bool {
	l := li.header[to]
	if l == nil {
		return false
	}
	for _, x := range l.latches {
		if x == from {
			return true
		}
	}
	return false
}

func (w *World) loopsOf(fn *ssa.Function) *loopInfo {
	if li, ok := w.loopCache[fn]; ok {
		return li
	}
	li := &loopInfo{header: map[*ssa.BasicBlock]*loop{}}
	// back edges: p -> h with h dominating p
	for _, b := range fn.Blocks {
		for _, s := range b.Succs {
			if s.Dominates(b) {
				l := li.header[s]
				if l == nil {
					l = &loop{head: s, blocks: map[*ssa.BasicBlock]bool{s: true}}
					li.header[s] = l
					li.loops = append(li.loops, l)
				}
				l.latches = append(l.latches, b)
			}
		}
	}
	sort.Slice(li.loops, func(i, j int) bool { return li.loops[i].head.Index < li.loops[j].head.Index })
	for i, l := range li.loops {
		l.ordinal = i + 1
		// natural loop: nodes that reach a latch without passing through head
		var stack []*ssa.BasicBlock
		for _, x := range l.latches {
			if !l.blocks[x] {
				l.blocks[x] = true
				stack = append(stack, x)
			}
		}
		for len(stack) > 0 {
			x := stack[len(stack)-1]
			stack = stack[:len(stack)-1]
			for _, p := range x.Preds {
				if !l.blocks[p] {
					l.blocks[p] = true
					stack = append(stack, p)
				}
			}
		}
	}
	// nesting
	for _, l := range li.loops {
		for _, m := range li.loops {
			if m != l && m.blocks[l.head] && len(m.blocks) > len(l.blocks) {
				if l.parent == nil || len(m.blocks) < len(l.parent.blocks) {
					l.parent = m
				}
			}
		}
	}
	// RPO ignoring back edges; detect remaining cycles (irreducible)
	state := map[*ssa.BasicBlock]int{}
	var post []*ssa.BasicBlock
	var dfs func(b *ssa.BasicBlock)
	dfs = func(b *ssa.BasicBlock) {
		state[b] = 1
		for _, s := range b.Succs {
			if li.isBackEdge(b, s) {
				continue
			}
			switch state[s] {
			case 0:
				dfs(s)
			case 1:
				li.irreducible = true
			}
		}
		state[b] = 2
		post = append(post, b)
	}
	if len(fn.Blocks) > 0 {
		dfs(fn.Blocks[0])
	}
	for i := len(post) - 1; i >= 0; i-- {
		li.rpo = append(li.rpo, post[i])
	}
	w.loopCache[fn] = li
	return li
}

// storeRoot traces an address operand to the Alloc/MakeSlice/MakeMap it is rooted at (or nil).
func storeRoot(v ssa.Value) ssa.Value {
	for {
		switch x := v.(type) {
		case *ssa.FieldAddr:
			v = x.X
		case *ssa.IndexAddr:
			v = x.X
			if u, ok := v.(*ssa.UnOp); ok && u.Op == token.MUL {
				// element of a slice held in a field of a local object
				if r := storeRoot(u.X); r != nil {
					return r
				}
			}
		case *ssa.Alloc, *ssa.MakeSlice, *ssa.MakeMap:
			return x
		default:
			return nil
		}
	}
}

// elemOnlyWrites: for each local root, whether every write inside the loop goes to a slice/array *element*
// (some path containing an index), in which case lengths of the slices inside the object are unchanged.
func elemOnlyWrites(l *loop) map[ssa.Value]bool {
	out := map[ssa.Value]bool{}
	note := func(addr ssa.Value) {
		hasIdx := false
		a := addr
		for {
			switch x := a.(type) {
			case *ssa.FieldAddr:
				a = x.X
				continue
			case *ssa.IndexAddr:
				// an index step through a slice held in a field: addr chain is IndexAddr(load(FieldAddr(root)))
				hasIdx = true
				if u, ok := x.X.(*ssa.UnOp); ok {
					a = u.X
				} else {
					a = x.X
				}
				continue
			}
			break
		}
		r := storeRoot(a)
		if r == nil {
			if al, ok := a.(*ssa.Alloc); ok {
				r = al
			}
		}
		if r == nil {
			return
		}
		if prev, seen := out[r]; seen {
			out[r] = prev && hasIdx
		} else {
			out[r] = hasIdx
		}
	}
	for b := range l.blocks {
		for _, in := range b.Instrs {
			if st, ok := in.(*ssa.Store); ok {
				note(st.Addr)
			}
		}
	}
	return out
}

// modifiedRoots lists local roots written inside the loop.
func modifiedRoots(l *loop) (roots []ssa.Value, unknown bool) {
	seen := map[ssa.Value]bool{}
	add := func(r ssa.Value) {
		if r == nil {
			unknown = true
			return
		}
		if !seen[r] {
			seen[r] = true
			roots = append(roots, r)
		}
	}
	for b := range l.blocks {
		for _, in := range b.Instrs {
			switch x := in.(type) {
			case *ssa.Store:
				add(storeRoot(x.Addr))
			case *ssa.MapUpdate:
				add(storeRoot(x.Map))
			case *ssa.Call:
				if f := x.Call.StaticCallee(); f != nil && f.Pkg != nil && f.Pkg.Pkg.Path() == "strings" && strings.HasPrefix(f.Name(), "Write") || (x.Call.StaticCallee() != nil && x.Call.StaticCallee().Name() == "Reset") {
					if len(x.Call.Args) > 0 {
						add(storeRoot(x.Call.Args[0]))
					}
				}
				if f := x.Call.StaticCallee(); f != nil && f.Pkg != nil && f.Pkg.Pkg.Path() == "math/big" {
					if len(x.Call.Args) > 0 {
						if r := storeRoot(x.Call.Args[0]); r != nil {
							add(r)
						}
					}
				}
			case *ssa.Alloc, *ssa.MakeSlice, *ssa.MakeMap:
				// allocated inside the loop: fresh per iteration, handled by re-execution
			}
		}
	}
	sort.Slice(roots, func(i, j int) bool { return roots[i].Pos() < roots[j].Pos() })
	return
}

// inductionPhi recognises header phi i with back-edge operand i+1 (same on all latches).
func inductionPhi(l *loop, li *loopInfo) (*ssa.Phi, ssa.Value) {
	for _, in := range l.head.Instrs {
		phi, ok := in.(*ssa.Phi)
		if !ok {
			break
		}
		if !isInteger(phi.Type()) {
			continue
		}
		var init ssa.Value
		okAll := true
		ninit := 0
		for i, p := range l.head.Preds {
			op := phi.Edges[i]
			if li.isBackEdge(p, l.head) {
				bo, ok := op.(*ssa.BinOp)
				if !ok || bo.Op != token.ADD {
					okAll = false
					break
				}
				c, ok2 := bo.Y.(*ssa.Const)
				if bo.X != phi || !ok2 || c.Value == nil || c.Value.ExactString() != "1" {
					okAll = false
					break
				}
			} else {
				if init != nil && init != op {
					ninit++
				}
				init = op
			}
		}
		if okAll && init != nil && ninit == 0 {
			return phi, init
		}
	}
	return nil, nil
}

func headerNext(l *loop) *ssa.Next {
	for _, in := range l.head.Instrs {
		if n, ok := in.(*ssa.Next); ok {
			return n
		}
	}
	return nil
}

// loopHeader handles entry into loop l at an arbitrary iteration.
func (e *Exec) loopHeader(b *ssa.BasicBlock, preds []*ssa.BasicBlock) {
	li := e.loops
	l := li.header[b]
	reach := e.reach[b]
	ct := e.w.contractOf(e.fn)
	var spec *loopSpec
	if ct != nil {
		spec = ct.loops[l.ordinal]
	}


	ind, init := inductionPhi(l, li)
	nx := headerNext(l)

	// entry values of header phis
	entryVal := func(phi *ssa.Phi) Term {
		var acc Term
		first := true
		for i := len(b.Preds) - 1; i >= 0; i-- {
			p := b.Preds[i]
			if li.isBackEdge(p, b) {
				continue
			}
			if e.subset != nil && !e.subset[p] {
				continue
			}
			t := e.term(phi.Edges[i])
			if first {
				acc, first = t, false
			} else {
				acc = ite(e.edgeCond(p, b), t, acc)
			}
		}
		return acc
	}

	entryVals := map[*ssa.Phi]Term{}
	for _, in := range b.Instrs {
		phi, ok := in.(*ssa.Phi)
		if !ok {
			break
		}
		entryVals[phi] = entryVal(phi)
	}
	if nx != nil && nx.IsString {
		// a range over a string has no index phi: the ordinal of the last rune consumed is carried under the nil key and
		// is called `rangeindex` in invariants, as in slice ranges (-1 on entry, K-1 at the head, K across a back edge)
		entryVals[nil] = "(- 1)"
	}
	// invariants on entry are evaluated in the pre-loop state
	var invInit []Term
	if spec != nil {
		for _, inv := range spec.invariant {
			e.root().goalGroups = invGroups(inv)
			invInit = append(invInit, e.invExpr(inv.expr, b, entryVals, false))
			e.root().goalGroups = nil
		}
	}
	// havoc cells written in the loop
	roots, unknown := modifiedRoots(l)
	if unknown {
		// a store we cannot attribute; the store itself will be flagged when reached
	}
	elemOnly := elemOnlyWrites(l)
	for _, r := range roots {
		c, ok := e.root().cells[r]
		if !ok {
			continue // allocated inside the loop
		}
		e.cur[c] = e.havocCellW(c, elemOnly[r])
	}

	var K Term
	var initT Term
	if ind != nil {
		initT = entryVal(ind)
		_ = init
		K = e.havoc("K"+fmt.Sprint(l.ordinal), "Int", false)
		if e.parent == nil {
			e.root().loopKs = append(e.root().loopKs, K, "(+ "+K+" 1)")
		}
		e.vals[ind] = val{t: K}
		e.assume(implies(reach, and("(<= "+initT+" "+K+")", e.typeInv(ind.Type(), K))))
	} else if nx != nil {
		initT = "0"
		K = e.havoc("K"+fmt.Sprint(l.ordinal), "Int", false)
		e.assume(implies(reach, "(<= 0 "+K+")"))
	}
	// other header phis: havoc
	var otherPhis []*ssa.Phi
	for _, in := range b.Instrs {
		phi, ok := in.(*ssa.Phi)
		if !ok {
			break
		}
		if phi == ind {
			continue
		}
		otherPhis = append(otherPhis, phi)
		t := e.havoc("lp_"+phi.Name(), e.g.sortOf(phi.Type()), true)
		e.vals[phi] = val{t: t}
		if inv := e.typeInv(phi.Type(), t); inv != "true" {
			e.assume(implies(reach, inv))
		}
	}
	if nx != nil {
		e.bindNext(nx, K)
	}

	// declared invariant: assumed at the (arbitrary) iteration, proved on entry and across every back edge
	if spec != nil && (spec.invariant != nil || spec.decreases != nil) {
		cur := map[*ssa.Phi]Term{}
		for _, in := range b.Instrs {
			phi, ok := in.(*ssa.Phi)
			if !ok {
				break
			}
			if v, ok := e.lookup(phi); ok {
				cur[phi] = e.asTerm(v, phi.Type())
			}
		}
		if nx != nil && nx.IsString && K != "" {
			cur[nil] = "(- " + K + " 1)"
		}
		for k, inv := range spec.invariant {
			if inv.name != "" && len(e.bound) > 0 {
				continue // inside another loop's summary a grouped invariant is only ballast
			}
			e.root().curGroup = inv.name
			t := e.invExpr(inv.expr, b, cur, true)
			e.root().curGroup = ""
			ireach := reach
			if inv.name != "" {
				ireach = and(reach, e.g.group(inv.name))
			}
			before := len(e.g.decls)
			e.assume(implies(ireach, t))
			if inv.name != "" {
				if e.g.declGroup == nil {
					e.g.declGroup = map[int]string{}
				}
				for i := before; i < len(e.g.decls); i++ {
					if strings.HasPrefix(e.g.decls[i], "(assert") {
						e.g.declGroup[i] = inv.name
					}
				}
			}
			if e.parent == nil {
				e.root().invRecords = append(e.root().invRecords, invRecord{head: b, cur: cur, expr: inv.expr, reach: ireach, group: inv.name})
			}
			if e.parent == nil && !e.noObl {
				ti := invInit[k]
				r := e.root()
				r.obls = append(r.obls, Obligation{Name: fmt.Sprintf("%s.loop%d.inv%d.init", e.w.fnKey(e.fn), l.ordinal, k+1), Kind: "inv", Cond: reach, Goal: ti, Pos: b.Instrs[0].Pos(), Fn: e.w.fnKey(e.fn), Groups: invGroups(inv), InvOf: invOf(inv)})
			}
		}
		if e.parent == nil && !e.noObl {
			pi := pendingInv{l: l, spec: spec, reach: reach}
			if nx != nil && nx.IsString {
				pi.strK = K
			}
			for _, dc := range spec.decreases {
				pi.decHead = append(pi.decHead, e.invExpr(dc.expr, b, cur, true))
			}
			e.root().pendingInv = append(e.root().pendingInv, pi)
		}
	}

	// bound from the loop guard: every earlier iteration passed the header test `i < n` (n loop-invariant)
	if ind != nil && K != "" {
		if iff, ok := b.Instrs[len(b.Instrs)-1].(*ssa.If); ok && l.blocks[b.Succs[0]] && !l.blocks[b.Succs[1]] {
			if cmp, ok := iff.Cond.(*ssa.BinOp); ok && cmp.Op == token.LSS && cmp.Block() == b {
				inc := headerInc(l, ind)
				var lhs Term
				if cmp.X == ind {
					lhs = "(- " + K + " 1)"
				} else if inc != nil && cmp.X == inc {
					lhs = K
				}
				yDefinedOutside := true
				if yi, ok := cmp.Y.(ssa.Instruction); ok && l.blocks[yi.Block()] {
					yDefinedOutside = false
				}
				if lhs != "" && yDefinedOutside {
					e.assume(implies(and(reach, "(< "+initT+" "+K+")"), "(< "+lhs+" "+e.term(cmp.Y)+")"))
				}
			}
		}
	}

	// auto-summary
	if K != "" {
		cont, ok := e.contOf(l, ind, nx)
		if ok {
			j := e.g.fresh("j")
			body := strings.ReplaceAll(cont, "@J@", j)
			var ps []string
			for _, bv := range e.bound {
				ps = append(ps, "("+bv.name+" "+bv.sort+")")
			}
			ps = append(ps, "("+j+" Int)")
			shift := 0
			if headerInc(l, ind) != nil {
				shift = 1
			}
			lo, hi := initT, K
			if shift == 1 {
				lo, hi = "(+ "+initT+" 1)", "(+ "+K+" 1)"
			}
			q := fmt.Sprintf("(forall (%s) (=> (and %s (<= %s %s) (< %s %s)) %s))", strings.Join(ps, " "), reach, lo, j, j, hi, body)
			e.g.assert(q)
			// the previous iteration (if any) continued: an instance the solver often needs for bounds of K
			{
				prev := "(- " + K + " 1)"
				if shift == 1 {
					prev = K
				}
				inst := implies(and(reach, "(< "+initT+" "+K+")"), strings.ReplaceAll(cont, "@J@", prev))
				if len(e.bound) == 0 {
					e.g.assert(inst)
				}
			}
			if len(e.bound) == 0 {
				for _, c := range e.root().goalSk {
					e.g.assert(implies(and(reach, "(<= "+lo+" "+c+")", "(< "+c+" "+hi+")"), strings.ReplaceAll(cont, "@J@", c)))
					// the type facts of the values that iteration loads (quantified over the iteration variable, which the
					// solvers do not reliably instantiate): alpine's numeric-array proof needed the int64 range of a[k].value
					for _, f := range e.contFacts {
						e.g.assert(implies("(inr64 "+c+")", strings.ReplaceAll(f, "@J@", c)))
					}
					if nx != nil && nx.IsString {
						// a goal constant read as a byte position: the rune ordinal that covers it
						ro := "(rune_of " + e.term(nx.Iter.(*ssa.Range).X) + " " + c + ")"
						e.g.assert(implies(and(reach, "(<= "+lo+" "+ro+")", "(< "+ro+" "+hi+")"), strings.ReplaceAll(cont, "@J@", ro)))
					}
				}
			}
			e.root().summaries = append(e.root().summaries, loopSummary{l: l, K: K, init: initT, cont: cont, reach: reach, nested: len(e.bound) > 0, shift: shift})
		}
	}
}

// invRecord remembers a declared invariant assumed at a loop head, so that later instantiation terms (for example the
// image of a goal constant under a sort permutation) can be fed to it.
type invRecord struct {
	group string
	head  *ssa.BasicBlock
	cur   map[*ssa.Phi]Term
	expr  *Expr
	reach Term
}

// existsInv: does a declared loop invariant of the function contain an existential?  (Only then are the iteration
// indices used as extra instantiation points; the additional instances slow the solvers down on the other functions.)
func (e *Exec) existsInv() bool {
	if e.existsInvMemo == 0 {
		e.existsInvMemo = 1
		if ct := e.w.contractOf(e.fn); ct != nil {
			for _, ls := range ct.loops {
				for _, inv := range ls.invariant {
					if hasExists(inv.expr) {
						e.existsInvMemo = 2
					}
				}
			}
		}
	}
	return e.existsInvMemo == 2
}

// witnessesFor: the named witnesses of the ungrouped invariants and of the groups a goal switches on.
func (e *Exec) witnessesFor(groups []string) []Term {
	var out []Term
	for _, c := range e.assumeWit {
		grp := e.witGroup[c]
		ok := grp == ""
		for _, g := range groups {
			if g == grp {
				ok = true
			}
		}
		if ok {
			out = append(out, c)
		}
	}
	return out
}

// allGroups: every invariant group of a loop (a termination proof may use any of its invariants).
func allGroups(spec *loopSpec) []string {
	var gs []string
	for _, inv := range spec.invariant {
		if inv.name != "" {
			gs = append(gs, inv.name)
		}
	}
	return gs
}

func invOf(inv *Clause) string {
	if inv.name == "" {
		return "-"
	}
	return inv.name
}

// invGroups: the invariant groups an invariant's own obligations switch on (its own group and the ones it names).
func invGroups(inv *Clause) []string {
	var gs []string
	if inv.name != "" {
		gs = append(gs, inv.name)
	}
	return append(gs, inv.using...)
}

type loopSummary struct {
	l     *loop
	K     Term
	init  Term
	cont  Term // with @J@ placeholder for the index
	reach Term
	nested bool
	shift  int // the placeholder denotes (induction value + shift)
}

// bindNext models `next` of a string range at rune ordinal k.
func (e *Exec) bindNext(nx *ssa.Next, k Term) {
	if !nx.IsString {
		e.unsupported("range over non-string")
		return
	}
	s := e.term(nx.Iter.(*ssa.Range).X)
	e.g.needRunes()
	ok := e.def(nx.Name()+"_ok", "Bool", "(< "+k+" (rune_count "+s+"))")
	key := e.def(nx.Name()+"_k", "Int", "(rune_pos "+s+" "+k+")")
	v := e.def(nx.Name()+"_v", "Int", "(rune_val "+s+" "+k+")")
	e.vals[nx] = val{tup: []val{{t: ok}, {t: key}, {t: v}}}
	// the byte position of the current rune: a candidate witness / instantiation point for byte-indexed contracts
	if e.parent == nil && len(e.bound) == 0 {
		e.root().loopKs = append(e.root().loopKs, key)
	}
}

// contOf builds Cont(j): from the header with induction value j, control returns to the header.
// Returned term uses the placeholder @J@ for j.  ok=false when the body depends on havocked state.
// headerInc: the header-block instruction ind+1 (range-style loops use it as the element index).
func headerInc(l *loop, ind *ssa.Phi) *ssa.BinOp {
	if ind == nil {
		return nil
	}
	for _, in := range l.head.Instrs {
		if bo, ok := in.(*ssa.BinOp); ok && bo.Op == token.ADD && bo.X == ind {
			if c, ok := bo.Y.(*ssa.Const); ok && c.Value != nil && c.Value.ExactString() == "1" {
				return bo
			}
		}
	}
	return nil
}

func (e *Exec) contOf(l *loop, ind *ssa.Phi, nx *ssa.Next) (Term, bool) {
	j := "@J@"
	child := &Exec{g: e.g, w: e.w, fn: e.fn, pfx: e.pfx + "q_", parent: e, bound: append(append([]boundVar{}, e.bound...), boundVar{j, "Int"}),
		vals: map[ssa.Value]val{}, reach: map[*ssa.BasicBlock]Term{}, edge: map[[2]*ssa.BasicBlock]Term{},
		cellsOut: map[*ssa.BasicBlock]map[*cell]Term{}, cur: map[*cell]Term{}, loops: e.loops, subset: l.blocks, loopHead: l.head, noObl: true}
	// We cannot literally bind "@J@" as a bound variable name in define-funs; use a real name and substitute.
	jn := e.g.fresh("jj")
	child.bound[len(child.bound)-1].name = jn
	if ind != nil {
		if inc := headerInc(l, ind); inc != nil {
			// the bound variable stands for ind+1, so that element accesses are plain `a[j]` (matchable by triggers)
			child.vals[ind] = val{t: "(- " + jn + " 1)"}
			child.vals[inc] = val{t: jn}
			child.prebound = map[ssa.Value]bool{inc: true}
		} else {
			child.vals[ind] = val{t: jn}
		}
	}
	// other phis / cells havocked (tainted)
	for _, in := range l.head.Instrs {
		phi, ok := in.(*ssa.Phi)
		if !ok {
			break
		}
		if phi == ind {
			continue
		}
		child.vals[phi] = val{t: child.havoc("lp_"+phi.Name(), e.g.sortOf(phi.Type()), true)}
	}
	roots, _ := modifiedRoots(l)
	for _, r := range roots {
		if c, ok := e.root().cells[r]; ok {
			child.cur[c] = child.havocCellW(c, elemOnlyWrites(l)[r])
		}
	}
	if nx != nil {
		child.curBlock = l.head
		child.bindNext(nx, jn)
	}
	child.runBlocks(e.loops.rpo, l.blocks)
	if e.g.unsupported != "" {
		return "", false
	}
	var conts []Term
	for _, lt := range l.latches {
		conts = append(conts, child.edgeCond(lt, l.head))
	}
	cont := or(conts...)
	if e.isTainted(cont) {
		return "", false
	}
	e.contFacts = nil
	if len(child.bound) == 1 {
		for _, f := range child.boundFacts {
			if !e.isTainted(f) {
				e.contFacts = append(e.contFacts, strings.ReplaceAll(f, jn, j))
			}
		}
	}
	return strings.ReplaceAll(cont, jn, j), true
}

// havocCell forgets what a loop may have written into a cell.  A cell made by `make([]T, n)` can only
// be changed element-wise, so its length, offset and nil-ness are kept.
// havocCellW: when the loop only writes elements, the fresh content keeps every slice length of the old one.
func (e *Exec) havocCellW(c *cell, elemOnly bool) Term {
	if !elemOnly || c.kind == "slice" {
		return e.havocCell(c)
	}
	// only slice elements are written: every scalar field and every slice length is kept
	return e.def("lh_"+c.name+"_k", e.g.sortOf(c.typ), e.keepShape(e.cellGet(c), c.typ, c.name, 0))
}

func (e *Exec) keepShape(old Term, t types.Type, name string, depth int) Term {
	switch tt := t.Underlying().(type) {
	case *types.Slice:
		s := e.g.sortOf(t)
		arr := e.havoc("lh_"+name+"_arr", "(Array Int "+e.g.sortOf(tt.Elem())+")", true)
		return fmt.Sprintf("(mk_%s (nil_%s %s) %s (off_%s %s) (len_%s %s))", s, s, old, arr, s, old, s, old)
	case *types.Struct:
		if depth > 3 {
			return e.havoc("lh_"+name, e.g.sortOf(t), true)
		}
		_, nt := structOf(t)
		s := e.g.sortOf(nt)
		if tt.NumFields() == 0 {
			return old
		}
		var fs []string
		for i := 0; i < tt.NumFields(); i++ {
			acc := "(" + e.g.fieldAcc(s, tt.Field(i).Name()) + " " + old + ")"
			fs = append(fs, e.keepShape(acc, tt.Field(i).Type(), name+"_"+tt.Field(i).Name(), depth+1))
		}
		return "(mk_" + s + " " + strings.Join(fs, " ") + ")"
	}
	return old
}

// sameLens: equalities between the lengths (and nil-ness, offsets) of all slices reachable through struct fields.
func (e *Exec) sameLens(a, b Term, t types.Type, depth int) []Term {
	if depth > 3 {
		return nil
	}
	switch tt := t.Underlying().(type) {
	case *types.Slice:
		s := e.g.sortOf(t)
		return []Term{fmt.Sprintf("(and (= (len_%s %s) (len_%s %s)) (= (off_%s %s) (off_%s %s)) (= (nil_%s %s) (nil_%s %s)))", s, a, s, b, s, a, s, b, s, a, s, b)}
	case *types.Struct:
		_, nt := structOf(t)
		s := e.g.sortOf(nt)
		var out []Term
		for i := 0; i < tt.NumFields(); i++ {
			acc := e.g.fieldAcc(s, tt.Field(i).Name())
			out = append(out, e.sameLens("("+acc+" "+a+")", "("+acc+" "+b+")", tt.Field(i).Type(), depth+1)...)
		}
		return out
	}
	return nil
}

func (e *Exec) havocCell(c *cell) Term {
	srt := e.g.sortOf(c.typ)
	if c.kind == "slice" {
		old := e.cellGet(c)
		et := c.typ.Underlying().(*types.Slice).Elem()
		arr := e.havoc("lh_"+c.name, "(Array Int "+e.g.sortOf(et)+")", true)
		return e.def("lh_"+c.name+"_s", srt, fmt.Sprintf("(mk_%s (nil_%s %s) %s (off_%s %s) (len_%s %s))", srt, srt, old, arr, srt, old, srt, old))
	}
	return e.havoc("lh_"+c.name, srt, true)
}

type pendingInv struct {
	l       *loop
	spec    *loopSpec
	decHead []Term // the variant expressions evaluated at the loop head
	reach   Term
	strK    Term // range over a string: the rune ordinal at the head
}

// invExpr evaluates a loop invariant; loop-carried variables are named by their source names.
func (e *Exec) invExpr(x *Expr, head *ssa.BasicBlock, phiVals map[*ssa.Phi]Term, asAssumption bool) Term {
	env := &exprEnv{e: e, g: e.g, w: e.w, pkg: e.fn.Pkg, vars: map[string]typedTerm{}}
	if env.pkg == nil && e.fn.Origin() != nil {
		env.pkg = e.fn.Origin().Pkg
	}
	// names are read as of the loop head (matters for values rebound by an in-place library call)
	savedBlock := e.curBlock
	e.curBlock = head
	defer func() { e.curBlock = savedBlock }()
	if asAssumption {
		env.instAt = append(append([]Term{}, e.root().goalSk...), e.root().extraInst...)
		if e.root().existsInv() {
			// invariants with existentials: the iteration indices are the usual witnesses and instantiation points
			env.instAt = append(env.instAt, e.root().loopKs...)
		}
	} else {
		env.goalSk = e.root().goalSk
		env.stepGoal = true
		// candidate witnesses for existentials in the invariant, and instantiation points for its hypotheses
		if e.root().existsInv() {
			env.hypInst = append(append([]Term{}, e.root().loopKs...), e.root().witnessesFor(e.root().goalGroups)...)
		}
	}
	env.entryVars = map[string]typedTerm{}
	for i, p := range e.fn.Params {
		env.vars[p.Name()] = typedTerm{t: e.root().params[i], typ: p.Type()}
		env.entryVars[p.Name()] = env.vars[p.Name()]
	}
	// single-assignment locals by their source names (current contents for cell-backed ones)
	for name, v := range e.w.localNames(e.fn) {
		if _, isParam := env.vars[name]; isParam {
			continue
		}
		if phi, isPhi := v.(*ssa.Phi); isPhi && (phi.Block() == head || !phi.Block().Dominates(head)) {
			continue // this loop's own phis are bound below; a phi that does not dominate the head has no value here
		}
		if x, ok := e.lookup(v); ok {
			if x.fn != nil || len(x.tup) > 0 {
				continue
			}
			env.vars[name] = typedTerm{t: e.peekTerm(x, v.Type()), typ: v.Type()}
		}
	}
	// a local strings.Builder (an addressed local, so no value-level debug reference): its current contents, as a string
	for _, b := range e.fn.Blocks {
		for _, in := range b.Instrs {
			dr, ok := in.(*ssa.DebugRef)
			if !ok || !dr.IsAddr || dr.Object() == nil {
				continue
			}
			al, ok := dr.X.(*ssa.Alloc)
			if !ok || al.Type().String() != "*strings.Builder" {
				continue
			}
			name := dr.Object().Name()
			if _, taken := env.vars[name]; taken {
				continue
			}
			if x, ok := e.lookup(al); ok && x.lv != nil && x.lv.cell != nil && len(x.lv.path) == 0 {
				env.vars[name] = typedTerm{t: e.cellGet(x.lv.cell), typ: tStr}
			}
		}
	}
	// join-point phis outside loop headers (a local assigned on several paths before the loop), when the name is unambiguous
	cnt := map[string]int{}
	for _, b := range e.fn.Blocks {
		for _, in := range b.Instrs {
			if phi, ok := in.(*ssa.Phi); ok && phi.Comment != "" {
				cnt[phi.Comment]++
			}
		}
	}
	for _, b := range e.fn.Blocks {
		if e.loops.header[b] != nil {
			continue
		}
		for _, in := range b.Instrs {
			phi, ok := in.(*ssa.Phi)
			if !ok || phi.Comment == "" || cnt[phi.Comment] != 1 {
				continue
			}
			if _, taken := env.vars[phi.Comment]; taken {
				continue
			}
			if x, ok := e.lookup(phi); ok && b.Dominates(head) {
				env.vars[phi.Comment] = typedTerm{t: e.peekTerm(x, phi.Type()), typ: phi.Type()}
			}
		}
	}
	// header phis of other loops that dominate this one (a local built by an earlier loop, or carried by an enclosing
	// one): their current value, when the name is carried by exactly one such phi
	other := map[string][]*ssa.Phi{}
	for _, b := range e.fn.Blocks {
		if e.loops.header[b] == nil || b == head || !b.Dominates(head) {
			continue
		}
		for _, in := range b.Instrs {
			if phi, ok := in.(*ssa.Phi); ok && phi.Comment != "" {
				other[phi.Comment] = append(other[phi.Comment], phi)
			}
		}
	}
	for name, phis := range other {
		if _, taken := env.vars[name]; taken {
			continue
		}
		// several dominating loops carry the name (a cursor advanced by one loop after another): the most recent one, i.e.
		// the phi whose header every other candidate's header dominates.  (Which value a name denotes affects what an
		// invariant says, not whether it is sound: it is proved before it is assumed.)
		pick := phis[0]
		for _, p := range phis[1:] {
			if pick.Block().Dominates(p.Block()) {
				pick = p
			}
		}
		okPick := true
		for _, p := range phis {
			if p != pick && !p.Block().Dominates(pick.Block()) {
				okPick = false
			}
		}
		if !okPick {
			continue
		}
		if x, ok := e.lookup(pick); ok && x.fn == nil && len(x.tup) == 0 {
			env.vars[name] = typedTerm{t: e.peekTerm(x, pick.Type()), typ: pick.Type()}
		}
	}
	for _, in := range head.Instrs {
		if phi, ok := in.(*ssa.Phi); ok && phi.Comment != "" {
			if t, ok := phiVals[phi]; ok {
				env.vars[phi.Comment] = typedTerm{t: t, typ: phi.Type()}
			}
		}
	}
	// the synthetic range index of loop N is also addressable as rangeindex#N (nested range loops share the plain name)
	for hb, hl := range e.loops.header {
		if hb != head && !hb.Dominates(head) {
			continue
		}
		for _, in := range hb.Instrs {
			phi, ok := in.(*ssa.Phi)
			if !ok {
				break
			}
			if phi.Comment != "rangeindex" {
				continue
			}
			key := fmt.Sprintf("rangeindex#%d", hl.ordinal)
			if hb == head {
				if t, ok := phiVals[phi]; ok {
					env.vars[key] = typedTerm{t: t, typ: phi.Type()}
				}
			} else if x, ok := e.lookup(phi); ok && x.fn == nil && len(x.tup) == 0 {
				env.vars[key] = typedTerm{t: e.peekTerm(x, phi.Type()), typ: phi.Type()}
			}
		}
	}
	if t, ok := phiVals[nil]; ok {
		if _, taken := env.vars["rangeindex"]; !taken {
			env.vars["rangeindex"] = typedTerm{t: t, typ: tInt}
		}
	}
	var tt typedTerm
	if asAssumption {
		tt = env.trAssume(x)
	} else {
		tt = env.trGoal(x)
	}
	if env.err != "" {
		e.unsupported("loop invariant: " + env.err)
	}
	return tt.t
}

// finishInvariants emits the preservation obligations (called after all blocks are translated).
func (e *Exec) finishInvariants() {
	for _, pi := range e.pendingInv {
		l := pi.l
		for _, lt := range l.latches {
			vals := map[*ssa.Phi]Term{}
			for _, in := range l.head.Instrs {
				phi, ok := in.(*ssa.Phi)
				if !ok {
					break
				}
				for i, p := range l.head.Preds {
					if p == lt {
						vals[phi] = e.term(phi.Edges[i])
					}
				}
			}
			if pi.strK != "" {
				vals[nil] = pi.strK
			}
			saved := e.cur
			e.cur = map[*cell]Term{}
			for c, t := range e.cellsOut[lt] {
				e.cur[c] = t
			}
			defer func() { e.cur = saved }()
			for k, inv := range pi.spec.invariant {
				e.root().goalGroups = invGroups(inv)
				t := e.invExpr(inv.expr, l.head, vals, false)
				e.root().goalGroups = nil
				if inv.name != "" && len(lt.Preds) > 1 && l.blocks[lt] && lt != l.head {
					// a grouped invariant is proved separately for every path into a joining latch (smaller queries)
					for _, p := range lt.Preds {
						if e.subset != nil && !e.subset[p] {
							continue
						}
						e.obls = append(e.obls, Obligation{Name: fmt.Sprintf("%s.loop%d.inv%d.step@%d.%d", e.w.fnKey(e.fn), l.ordinal, k+1, lt.Index, p.Index), Kind: "inv", Cond: and(e.edgeCond(p, lt), e.edgeCond(lt, l.head)), Goal: t, Pos: l.head.Instrs[0].Pos(), Fn: e.w.fnKey(e.fn), Groups: invGroups(inv), InvOf: invOf(inv)})
					}
					continue
				}
				e.obls = append(e.obls, Obligation{Name: fmt.Sprintf("%s.loop%d.inv%d.step@%d", e.w.fnKey(e.fn), l.ordinal, k+1, lt.Index), Kind: "inv", Cond: e.edgeCond(lt, l.head), Goal: t, Pos: l.head.Instrs[0].Pos(), Fn: e.w.fnKey(e.fn), Groups: invGroups(inv), InvOf: invOf(inv)})
			}
			// termination: the variant is non-negative at the head and smaller when control comes back to it
			for k, dc := range pi.spec.decreases {
				if k >= len(pi.decHead) {
					break
				}
				vn := e.invExpr(dc.expr, l.head, vals, true)
				goal := and("(<= 0 "+pi.decHead[k]+")", "(< "+vn+" "+pi.decHead[k]+")")
				e.obls = append(e.obls, Obligation{Name: fmt.Sprintf("%s.loop%d.decreases%d@%d", e.w.fnKey(e.fn), l.ordinal, k+1, lt.Index), Kind: "inv", Cond: e.edgeCond(lt, l.head), Goal: goal, Pos: l.head.Instrs[0].Pos(), Fn: e.w.fnKey(e.fn), Groups: allGroups(pi.spec)})
			}
		}
	}
}

var _ = types.Typ

package main

import (
	"fmt"
	"sort"
	"strings"
	"sync"
	"time"

	"golang.org/x/tools/go/ssa"
)

// C05 bounded API obligations: the real NewVersionRange+Contains of each ecosystem against the interval its
// documentation gives for every shorthand construct and base arity, evaluated in the harness with the ecosystem's
// own NewVersion+Compare (the order itself is C01/C03/C08) on a grid of bases and boundary probes.
//
// What the harness does NOT claim (so it cannot alarm on behaviour the property leaves open):
//   - pre-release probes are used only at the lower edge (same release numbers as the base) and, for npm only
//     (whose documented upper bounds are written "<X.0.0-0"), at the upper edge; pre-releases strictly inside the
//     interval are not probed (native tools exclude them, go-univers documents including them);
//   - x-range / wildcard lower edges are not probed with pre-releases;
//   - composer probes are stable versions only; pypi probes are final or post releases only.
const shorthandHarness = `package PKG

import (
	"fmt"
	"sort"
	"testing"
)

type c05case struct {
	construct string
	rng       string
	lo, hi    string // "" = unbounded
	loIncl    bool
	hiIncl    bool
	loPre     bool // probe pre-releases that share the lower bound's release numbers
	hiPre     bool // probe pre-releases that share the upper bound's release numbers
	neg       bool // the range is the complement of the interval
}

type c05probe struct {
	text string
	rel  [3]int
	pre  bool
}

func c05v(x, y, z int) string { return fmt.Sprintf("%d.%d.%d", x, y, z) }

func TestVerifReplay(t *testing.T) {
	e := &Ecosystem{}
	var cases []c05case
	add := func(c c05case) { cases = append(cases, c) }
	grid := []int{GRID}
	_ = grid
	CASES
	var probes []c05probe
	pg := []int{PROBEGRID}
	for _, x := range pg {
		for _, y := range pg {
			for _, z := range pg {
				probes = append(probes, c05probe{text: fmt.Sprintf(PROBEFMT, x, y, z), rel: [3]int{x, y, z}})
				for _, p := range []string{PRESUFFIXES} {
					probes = append(probes, c05probe{text: fmt.Sprintf(PROBEFMT, x, y, z) + p, rel: [3]int{x, y, z}, pre: true})
				}
				for _, p := range []string{POSTSUFFIXES} {
					probes = append(probes, c05probe{text: fmt.Sprintf(PROBEFMT, x, y, z) + p, rel: [3]int{x, y, z}})
				}
				for _, p := range []string{PROBEPREFIXES} {
					probes = append(probes, c05probe{text: p + fmt.Sprintf(PROBEFMT, x, y, z), rel: [3]int{x, y, z}})
				}
			}
		}
	}
	type pv struct {
		p c05probe
		v *Version
	}
	var parsed []pv
	for _, p := range probes {
		if v, err := e.NewVersion(p.text); err == nil {
			parsed = append(parsed, pv{p, v})
		}
	}
	relOf := func(s string) ([3]int, bool) {
		var r [3]int
		n, _ := fmt.Sscanf(s, "%d.%d.%d", &r[0], &r[1], &r[2])
		if n < 3 {
			r = [3]int{}
			n, _ = fmt.Sscanf(s, "%d.%d", &r[0], &r[1])
			if n < 2 {
				r = [3]int{}
				n, _ = fmt.Sscanf(s, "%d", &r[0])
			}
		}
		return r, n > 0
	}
	type stat struct {
		evals, ranges, rejected int
		cx                      string
		rej                     string
	}
	stats := map[string]*stat{}
	for _, c := range cases {
		st := stats[c.construct]
		if st == nil {
			st = &stat{}
			stats[c.construct] = st
		}
		if st.cx != "" {
			continue
		}
		r, err := e.NewVersionRange(c.rng)
		if err != nil {
			st.rejected++
			if st.rej == "" {
				st.rej = fmt.Sprintf("range %q rejected: %v", c.rng, err)
			}
			continue
		}
		var lo, hi *Version
		if c.lo != "" {
			if lo, err = e.NewVersion(c.lo); err != nil {
				continue
			}
		}
		if c.hi != "" {
			if hi, err = e.NewVersion(c.hi); err != nil {
				continue
			}
		}
		st.ranges++
		loRel, _ := relOf(c.lo)
		hiRel, _ := relOf(c.hi)
		for _, q := range parsed {
			if q.p.pre {
				ok := (c.loPre && c.lo != "" && q.p.rel == loRel) || (c.hiPre && c.hi != "" && q.p.rel == hiRel)
				if !ok {
					continue
				}
			}
			want := true
			if lo != nil {
				if k := q.v.Compare(lo); k < 0 || (k == 0 && !c.loIncl) {
					want = false
				}
			}
			if hi != nil {
				if k := q.v.Compare(hi); k > 0 || (k == 0 && !c.hiIncl) {
					want = false
				}
			}
			if c.neg {
				want = !want
			}
			st.evals++
			if got := r.Contains(q.v); got != want {
				lb, ub := "(", ")"
				if c.loIncl {
					lb = "["
				}
				if c.hiIncl {
					ub = "]"
				}
				doc := lb + c.lo + ", " + c.hi + ub
				if c.neg {
					doc = "everything outside " + doc
				}
				st.cx = fmt.Sprintf("NewVersionRange(%q).Contains(%q) = %v, documented interval %s says %v", c.rng, q.p.text, got, doc, want)
				break
			}
		}
	}
	var names []string
	for k := range stats {
		names = append(names, k)
	}
	sort.Strings(names)
	for _, k := range names {
		st := stats[k]
		switch {
		case st.cx != "":
			fmt.Printf("VERIF-C05 %s CX %s\n", k, st.cx)
		case st.ranges == 0:
			fmt.Printf("VERIF-C05 %s REJECT %s\n", k, st.rej)
		default:
			fmt.Printf("VERIF-C05 %s OK ranges=%d rejected=%d evals=%d\n", k, st.ranges, st.rejected, st.evals)
		}
	}
}
`

type shorthandEco struct {
	pkg      string
	probeFmt string
	pre      []string
	post     []string
	prefixes []string // probe texts also with these prefixes (an epoch)
	cases    string
}

// The per-ecosystem case tables are Go source inserted into the harness; "add(c05case{...})" registers one range.
var shorthandEcos = []shorthandEco{
	{pkg: "npm", probeFmt: "%d.%d.%d", pre: []string{"-0", "-alpha", "-beta.2", "-beta.3"}, cases: `
	for _, X := range grid { for _, Y := range grid { for _, Z := range grid {
		b := c05v(X, Y, Z)
		hiC := c05v(0, 0, Z+1) + "-0"
		if X > 0 { hiC = c05v(X+1, 0, 0) + "-0" } else if Y > 0 { hiC = c05v(0, Y+1, 0) + "-0" }
		hiC2 := c05v(0, Y+1, 0) + "-0"
		if X > 0 { hiC2 = c05v(X+1, 0, 0) + "-0" }
		hiT := c05v(X, Y+1, 0) + "-0"
		hiM := c05v(X+1, 0, 0) + "-0"
		add(c05case{construct: "caret/X.Y.Z", rng: "^" + b, lo: b, loIncl: true, hi: hiC, loPre: true, hiPre: true})
		add(c05case{construct: "caret/X.Y.Z-pre", rng: "^" + b + "-beta.2", lo: b + "-beta.2", loIncl: true, hi: hiC, loPre: true, hiPre: true})
		add(c05case{construct: "tilde/X.Y.Z", rng: "~" + b, lo: b, loIncl: true, hi: hiT, loPre: true, hiPre: true})
		add(c05case{construct: "tilde/X.Y.Z-pre", rng: "~" + b + "-beta.2", lo: b + "-beta.2", loIncl: true, hi: hiT, loPre: true, hiPre: true})
		if Z == 0 {
			add(c05case{construct: "caret/X.Y", rng: fmt.Sprintf("^%d.%d", X, Y), lo: c05v(X, Y, 0), loIncl: true, hi: hiC2, hiPre: true})
			add(c05case{construct: "tilde/X.Y", rng: fmt.Sprintf("~%d.%d", X, Y), lo: c05v(X, Y, 0), loIncl: true, hi: hiT, hiPre: true})
			add(c05case{construct: "xrange/X.Y.x", rng: fmt.Sprintf("%d.%d.x", X, Y), lo: c05v(X, Y, 0), loIncl: true, hi: hiT, hiPre: true})
			add(c05case{construct: "xrange/X.Y.*", rng: fmt.Sprintf("%d.%d.*", X, Y), lo: c05v(X, Y, 0), loIncl: true, hi: hiT, hiPre: true})
			add(c05case{construct: "xrange/X.Y", rng: fmt.Sprintf("%d.%d", X, Y), lo: c05v(X, Y, 0), loIncl: true, hi: hiT, hiPre: true})
			add(c05case{construct: "hyphen/upper-X.Y", rng: fmt.Sprintf("0.0.1 - %d.%d", X, Y), lo: "0.0.1", loIncl: true, hi: hiT, loPre: true, hiPre: true})
			add(c05case{construct: "hyphen/lower-X.Y", rng: fmt.Sprintf("%d.%d - 10.0.0", X, Y), lo: c05v(X, Y, 0), loIncl: true, hi: "10.0.0", hiIncl: true})
		}
		if Y == 0 && Z == 0 {
			add(c05case{construct: "caret/X", rng: fmt.Sprintf("^%d", X), lo: c05v(X, 0, 0), loIncl: true, hi: hiM, hiPre: true})
			add(c05case{construct: "tilde/X", rng: fmt.Sprintf("~%d", X), lo: c05v(X, 0, 0), loIncl: true, hi: hiM, hiPre: true})
			add(c05case{construct: "xrange/X.x", rng: fmt.Sprintf("%d.x", X), lo: c05v(X, 0, 0), loIncl: true, hi: hiM, hiPre: true})
			add(c05case{construct: "xrange/X.*", rng: fmt.Sprintf("%d.*", X), lo: c05v(X, 0, 0), loIncl: true, hi: hiM, hiPre: true})
			add(c05case{construct: "xrange/X.x.x", rng: fmt.Sprintf("%d.x.x", X), lo: c05v(X, 0, 0), loIncl: true, hi: hiM, hiPre: true})
			add(c05case{construct: "xrange/X", rng: fmt.Sprintf("%d", X), lo: c05v(X, 0, 0), loIncl: true, hi: hiM, hiPre: true})
			add(c05case{construct: "hyphen/upper-X", rng: fmt.Sprintf("0.0.1 - %d", X), lo: "0.0.1", loIncl: true, hi: hiM, loPre: true, hiPre: true})
		}
		add(c05case{construct: "hyphen/X.Y.Z", rng: "1.2.3 - " + c05v(X+1, Y, Z), lo: "1.2.3", loIncl: true, hi: c05v(X+1, Y, Z), hiIncl: true, loPre: true, hiPre: true})
		add(c05case{construct: "hyphen/X.Y.Z", rng: b + " - 10.1.2", lo: b, loIncl: true, hi: "10.1.2", hiIncl: true, loPre: true, hiPre: true})
	}}}
	add(c05case{construct: "xrange/*", rng: "*"})
`},
	{pkg: "cargo", probeFmt: "%d.%d.%d", pre: []string{"-alpha.1", "-alpha.2", "-alpha.3", "-rc"}, cases: `
	for _, X := range grid { for _, Y := range grid { for _, Z := range grid {
		b := c05v(X, Y, Z)
		hiC := c05v(0, 0, Z+1)
		if X > 0 { hiC = c05v(X+1, 0, 0) } else if Y > 0 { hiC = c05v(0, Y+1, 0) }
		hiC2 := c05v(0, Y+1, 0)
		if X > 0 { hiC2 = c05v(X+1, 0, 0) }
		hiT := c05v(X, Y+1, 0)
		hiM := c05v(X+1, 0, 0)
		add(c05case{construct: "caret/X.Y.Z", rng: "^" + b, lo: b, loIncl: true, hi: hiC, loPre: true})
		add(c05case{construct: "caret/X.Y.Z-pre", rng: "^" + b + "-alpha.2", lo: b + "-alpha.2", loIncl: true, hi: hiC, loPre: true})
		add(c05case{construct: "tilde/X.Y.Z", rng: "~" + b, lo: b, loIncl: true, hi: hiT, loPre: true})
		add(c05case{construct: "tilde/X.Y.Z-pre", rng: "~" + b + "-alpha.2", lo: b + "-alpha.2", loIncl: true, hi: hiT, loPre: true})
		if Z == 0 {
			add(c05case{construct: "caret/X.Y", rng: fmt.Sprintf("^%d.%d", X, Y), lo: c05v(X, Y, 0), loIncl: true, hi: hiC2})
			add(c05case{construct: "tilde/X.Y", rng: fmt.Sprintf("~%d.%d", X, Y), lo: c05v(X, Y, 0), loIncl: true, hi: hiT})
			add(c05case{construct: "wildcard/X.Y.*", rng: fmt.Sprintf("%d.%d.*", X, Y), lo: c05v(X, Y, 0), loIncl: true, hi: hiT})
		}
		if Y == 0 && Z == 0 {
			add(c05case{construct: "caret/X", rng: fmt.Sprintf("^%d", X), lo: c05v(X, 0, 0), loIncl: true, hi: hiM})
			add(c05case{construct: "tilde/X", rng: fmt.Sprintf("~%d", X), lo: c05v(X, 0, 0), loIncl: true, hi: hiM})
			add(c05case{construct: "wildcard/X.*", rng: fmt.Sprintf("%d.*", X), lo: c05v(X, 0, 0), loIncl: true, hi: hiM})
		}
	}}}
	add(c05case{construct: "wildcard/*", rng: "*"})
`},
	{pkg: "composer", probeFmt: "%d.%d.%d", post: []string{".1", ".5", ".9"}, cases: `
	for _, X := range grid { for _, Y := range grid { for _, Z := range grid {
		b := c05v(X, Y, Z)
		hiC := c05v(0, 0, Z+1)
		if X > 0 { hiC = c05v(X+1, 0, 0) } else if Y > 0 { hiC = c05v(0, Y+1, 0) }
		hiC2 := c05v(0, Y+1, 0)
		if X > 0 { hiC2 = c05v(X+1, 0, 0) }
		hiT := c05v(X, Y+1, 0)
		hiM := c05v(X+1, 0, 0)
		add(c05case{construct: "caret/X.Y.Z", rng: "^" + b, lo: b, loIncl: true, hi: hiC})
		add(c05case{construct: "caret/X.Y.Z.W", rng: "^" + b + ".5", lo: b + ".5", loIncl: true, hi: hiC})
		add(c05case{construct: "tilde/X.Y.Z", rng: "~" + b, lo: b, loIncl: true, hi: hiT})
		if Z == 0 {
			if X > 0 || Y > 0 { add(c05case{construct: "caret/X.Y", rng: fmt.Sprintf("^%d.%d", X, Y), lo: c05v(X, Y, 0), loIncl: true, hi: hiC2}) } // ^0.0 is not in the composer documentation
			add(c05case{construct: "tilde/X.Y", rng: fmt.Sprintf("~%d.%d", X, Y), lo: c05v(X, Y, 0), loIncl: true, hi: hiM})
			add(c05case{construct: "wildcard/X.Y.*", rng: fmt.Sprintf("%d.%d.*", X, Y), lo: c05v(X, Y, 0), loIncl: true, hi: hiT})
			add(c05case{construct: "hyphen/upper-X.Y", rng: fmt.Sprintf("0.0.1 - %d.%d", X, Y), lo: "0.0.1", loIncl: true, hi: hiT})
		}
		if Y == 0 && Z == 0 {
			if X > 0 { add(c05case{construct: "caret/X", rng: fmt.Sprintf("^%d", X), lo: c05v(X, 0, 0), loIncl: true, hi: hiM}) } // ^0 is not in the composer documentation
			add(c05case{construct: "tilde/X", rng: fmt.Sprintf("~%d", X), lo: c05v(X, 0, 0), loIncl: true, hi: hiM})
			add(c05case{construct: "wildcard/X.*", rng: fmt.Sprintf("%d.*", X), lo: c05v(X, 0, 0), loIncl: true, hi: hiM})
		}
		add(c05case{construct: "hyphen/X.Y.Z", rng: "1.2.3 - " + c05v(X+1, Y, Z), lo: "1.2.3", loIncl: true, hi: c05v(X+1, Y, Z), hiIncl: true})
		add(c05case{construct: "hyphen/X.Y.Z", rng: b + " - 10.1.2", lo: b, loIncl: true, hi: "10.1.2", hiIncl: true})
	}}}
	add(c05case{construct: "wildcard/*", rng: "*"})
`},
	{pkg: "conan", probeFmt: "%d.%d.%d", pre: []string{"-alpha", "-pre.1"}, cases: `
	for _, X := range grid { for _, Y := range grid { for _, Z := range grid {
		b := c05v(X, Y, Z)
		hiT := c05v(X, Y+1, 0)
		hiM := c05v(X+1, 0, 0)
		// conan documents the caret for a non-zero major (^1.2 is >=1.2 <2.0) and for 0.Y with Y > 0 (^0.1.2 is >=0.1.2 <0.2.0)
		if X > 0 {
			add(c05case{construct: "caret/X.Y.Z", rng: "^" + b, lo: b, loIncl: true, hi: hiM, loPre: true})
			if Z == 0 { add(c05case{construct: "caret/X.Y", rng: fmt.Sprintf("^%d.%d", X, Y), lo: c05v(X, Y, 0), loIncl: true, hi: hiM}) }
			if Y == 0 && Z == 0 { add(c05case{construct: "caret/X", rng: fmt.Sprintf("^%d", X), lo: c05v(X, 0, 0), loIncl: true, hi: hiM}) }
		} else if Y > 0 {
			add(c05case{construct: "caret/0.Y.Z", rng: "^" + b, lo: b, loIncl: true, hi: hiT, loPre: true})
			if Z == 0 { add(c05case{construct: "caret/0.Y", rng: fmt.Sprintf("^%d.%d", X, Y), lo: c05v(X, Y, 0), loIncl: true, hi: hiT}) }
		}
		add(c05case{construct: "tilde/X.Y.Z", rng: "~" + b, lo: b, loIncl: true, hi: hiT, loPre: true})
		if Z == 0 { add(c05case{construct: "tilde/X.Y", rng: fmt.Sprintf("~%d.%d", X, Y), lo: c05v(X, Y, 0), loIncl: true, hi: hiT}) }
		if Y == 0 && Z == 0 { add(c05case{construct: "tilde/X", rng: fmt.Sprintf("~%d", X), lo: c05v(X, 0, 0), loIncl: true, hi: hiM}) }
	}}}
`},
	{pkg: "gem", probeFmt: "%d.%d.%d", pre: []string{".rc1", ".a"}, cases: `
	for _, X := range grid { for _, Y := range grid { for _, Z := range grid {
		b := c05v(X, Y, Z)
		add(c05case{construct: "pessimistic/X.Y.Z", rng: "~> " + b, lo: b, loIncl: true, hi: c05v(X, Y+1, 0), loPre: true})
		if Z == 0 { add(c05case{construct: "pessimistic/X.Y", rng: fmt.Sprintf("~> %d.%d", X, Y), lo: c05v(X, Y, 0), loIncl: true, hi: c05v(X+1, 0, 0)}) }
		if Y == 0 && Z == 0 { add(c05case{construct: "pessimistic/X", rng: fmt.Sprintf("~> %d", X), lo: c05v(X, 0, 0), loIncl: true, hi: c05v(X+1, 0, 0)}) }
	}}}
`},
	{pkg: "hex", probeFmt: "%d.%d.%d", pre: []string{"-alpha", "-rc.1"}, cases: `
	for _, X := range grid { for _, Y := range grid { for _, Z := range grid {
		b := c05v(X, Y, Z)
		add(c05case{construct: "pessimistic/X.Y.Z", rng: "~>" + b, lo: b, loIncl: true, hi: c05v(X, Y+1, 0), loPre: true})
		add(c05case{construct: "pessimistic/X.Y.Z-pre", rng: "~>" + b + "-rc.1", lo: b + "-rc.1", loIncl: true, hi: c05v(X, Y+1, 0), loPre: true})
		if Z == 0 && Y == 0 { add(c05case{construct: "pessimistic/X.0", rng: fmt.Sprintf("~>%d.%d", X, Y), lo: c05v(X, Y, 0), loIncl: true, hi: c05v(X+1, 0, 0)}) }
		if Z == 0 && Y != 0 { add(c05case{construct: "pessimistic/X.Y", rng: fmt.Sprintf("~>%d.%d", X, Y), lo: c05v(X, Y, 0), loIncl: true, hi: c05v(X+1, 0, 0)}) }
	}}}
`},
	{pkg: "pypi", probeFmt: "%d.%d.%d", post: []string{".post1"}, prefixes: []string{"1!"}, cases: `
	for _, X := range grid { for _, Y := range grid { for _, Z := range grid {
		b := c05v(X, Y, Z)
		add(c05case{construct: "compatible/X.Y.Z", rng: "~=" + b, lo: b, loIncl: true, hi: c05v(X, Y+1, 0)})
		add(c05case{construct: "compatible/X.Y.Z.postN", rng: "~=" + b + ".post1", lo: b + ".post1", loIncl: true, hi: c05v(X, Y+1, 0)})
		if Z == 0 {
			add(c05case{construct: "compatible/X.Y", rng: fmt.Sprintf("~=%d.%d", X, Y), lo: c05v(X, Y, 0), loIncl: true, hi: c05v(X+1, 0, 0)})
			add(c05case{construct: "compatible/X.Y.postN", rng: fmt.Sprintf("~=%d.%d.post1", X, Y), lo: fmt.Sprintf("%d.%d.post1", X, Y), loIncl: true, hi: c05v(X+1, 0, 0)})
			add(c05case{construct: "wildcard/==X.Y.*", rng: fmt.Sprintf("==%d.%d.*", X, Y), lo: c05v(X, Y, 0), loIncl: true, hi: c05v(X, Y+1, 0)})
			add(c05case{construct: "wildcard/!=X.Y.*", rng: fmt.Sprintf("!=%d.%d.*", X, Y), lo: c05v(X, Y, 0), loIncl: true, hi: c05v(X, Y+1, 0), neg: true})
		}
		if Y == 0 && Z == 0 {
			add(c05case{construct: "wildcard/==X.*", rng: fmt.Sprintf("==%d.*", X), lo: c05v(X, 0, 0), loIncl: true, hi: c05v(X+1, 0, 0)})
			add(c05case{construct: "wildcard/!=X.*", rng: fmt.Sprintf("!=%d.*", X), lo: c05v(X, 0, 0), loIncl: true, hi: c05v(X+1, 0, 0), neg: true})
		}
		add(c05case{construct: "wildcard/==X.Y.Z.*", rng: "==" + b + ".*", lo: b, loIncl: true, hi: c05v(X, Y, Z+1)})
		// the same constructs on a base with an epoch (the bounds keep the epoch)
		add(c05case{construct: "compatible/N!X.Y.Z", rng: "~=1!" + b, lo: "1!" + b, loIncl: true, hi: "1!" + c05v(X, Y+1, 0)})
		if Z == 0 {
			add(c05case{construct: "compatible/N!X.Y", rng: fmt.Sprintf("~=1!%d.%d", X, Y), lo: "1!" + c05v(X, Y, 0), loIncl: true, hi: "1!" + c05v(X+1, 0, 0)})
			add(c05case{construct: "wildcard/==N!X.Y.*", rng: fmt.Sprintf("==1!%d.%d.*", X, Y), lo: "1!" + c05v(X, Y, 0), loIncl: true, hi: "1!" + c05v(X, Y+1, 0)})
		}
	}}}
`},
	{pkg: "nuget", probeFmt: "%d.%d.%d", pre: []string{"-alpha", "-beta.2"}, cases: `
	for _, X := range grid { for _, Y := range grid { for _, Z := range grid {
		b := c05v(X, Y, Z)
		u := c05v(X+1, Y, Z)
		add(c05case{construct: "bracket/[a,b]", rng: "[" + b + "," + u + "]", lo: b, loIncl: true, hi: u, hiIncl: true, loPre: true, hiPre: true})
		add(c05case{construct: "bracket/[a,b)", rng: "[" + b + "," + u + ")", lo: b, loIncl: true, hi: u, loPre: true, hiPre: true})
		add(c05case{construct: "bracket/(a,b]", rng: "(" + b + "," + u + "]", lo: b, hi: u, hiIncl: true, loPre: true, hiPre: true})
		add(c05case{construct: "bracket/(a,b)", rng: "(" + b + "," + u + ")", lo: b, hi: u, loPre: true, hiPre: true})
		add(c05case{construct: "bracket/[a]", rng: "[" + b + "]", lo: b, loIncl: true, hi: b, hiIncl: true, loPre: true})
		add(c05case{construct: "bracket/[a,)", rng: "[" + b + ",)", lo: b, loIncl: true, loPre: true})
		add(c05case{construct: "bracket/(a,)", rng: "(" + b + ",)", lo: b, loPre: true})
		add(c05case{construct: "bracket/(,b]", rng: "(," + b + "]", hi: b, hiIncl: true, hiPre: true})
		add(c05case{construct: "bracket/(,b)", rng: "(," + b + ")", hi: b, hiPre: true})
		add(c05case{construct: "bracket/minimum", rng: b, lo: b, loIncl: true, loPre: true})
		if Z == 0 {
			s, su := fmt.Sprintf("%d.%d", X, Y), fmt.Sprintf("%d.%d", X+1, Y)
			add(c05case{construct: "bracket/[X.Y,X.Y)", rng: "[" + s + "," + su + ")", lo: b, loIncl: true, hi: u, loPre: true, hiPre: true})
			add(c05case{construct: "bracket/(,X.Y]", rng: "(," + s + "]", hi: b, hiIncl: true, hiPre: true})
		}
	}}}
`},
	{pkg: "maven", probeFmt: "%d.%d.%d", pre: []string{"-alpha-1", "-rc-1", "-SNAPSHOT"}, cases: `
	for _, X := range grid { for _, Y := range grid { for _, Z := range grid {
		b := c05v(X, Y, Z)
		u := c05v(X+1, Y, Z)
		add(c05case{construct: "bracket/[a,b]", rng: "[" + b + "," + u + "]", lo: b, loIncl: true, hi: u, hiIncl: true, loPre: true, hiPre: true})
		add(c05case{construct: "bracket/[a,b)", rng: "[" + b + "," + u + ")", lo: b, loIncl: true, hi: u, loPre: true, hiPre: true})
		add(c05case{construct: "bracket/(a,b]", rng: "(" + b + "," + u + "]", lo: b, hi: u, hiIncl: true, loPre: true, hiPre: true})
		add(c05case{construct: "bracket/(a,b)", rng: "(" + b + "," + u + ")", lo: b, hi: u, loPre: true, hiPre: true})
		add(c05case{construct: "bracket/[a]", rng: "[" + b + "]", lo: b, loIncl: true, hi: b, hiIncl: true, loPre: true})
		add(c05case{construct: "bracket/[a,)", rng: "[" + b + ",)", lo: b, loIncl: true, loPre: true})
		add(c05case{construct: "bracket/(a,)", rng: "(" + b + ",)", lo: b, loPre: true})
		add(c05case{construct: "bracket/(,b]", rng: "(," + b + "]", hi: b, hiIncl: true, hiPre: true})
		add(c05case{construct: "bracket/(,b)", rng: "(," + b + ")", hi: b, hiPre: true})
		if Z == 0 {
			s, su := fmt.Sprintf("%d.%d", X, Y), fmt.Sprintf("%d.%d", X+1, Y)
			add(c05case{construct: "bracket/[X.Y,X.Y)", rng: "[" + s + "," + su + ")", lo: b, loIncl: true, hi: u, loPre: true, hiPre: true})
			add(c05case{construct: "bracket/(,X.Y]", rng: "(," + s + "]", hi: b, hiIncl: true, hiPre: true})
		}
	}}}
`},
}

func quoteList(xs []string) string {
	var q []string
	for _, x := range xs {
		q = append(q, fmt.Sprintf("%q", x))
	}
	return strings.Join(q, ", ")
}

func (s shorthandEco) source() string {
	src := strings.ReplaceAll(shorthandHarness, "package PKG", "package "+s.pkg)
	src = strings.ReplaceAll(src, "PROBEFMT", fmt.Sprintf("%q", s.probeFmt))
	src = strings.ReplaceAll(src, "PRESUFFIXES", quoteList(s.pre))
	src = strings.ReplaceAll(src, "POSTSUFFIXES", quoteList(s.post))
	src = strings.ReplaceAll(src, "PROBEPREFIXES", quoteList(s.prefixes))
	src = strings.Replace(src, "\tCASES\n", s.cases, 1)
	if harnessThorough {
		src = strings.Replace(src, "GRID", "0, 1, 2, 3, 9, 10, 99", 1)
		src = strings.Replace(src, "PROBEGRID", "0, 1, 2, 3, 4, 5, 9, 10, 11, 12, 99, 100, 101", 1)
	} else {
		src = strings.Replace(src, "GRID", "0, 1, 2, 9", 1)
		src = strings.Replace(src, "PROBEGRID", "0, 1, 2, 3, 4, 9, 10, 11", 1)
	}
	return src
}

type shorthandResult struct {
	lines map[string]string // construct -> "OK ..." | "CX ..." | "REJECT ..."
	out   string
	secs  float64
}

var (
	shorthandMu    sync.Mutex
	shorthandCache = map[string]*shorthandResult{}
)

// runShorthand runs the harness of one ecosystem once per process.
func runShorthand(w *World, eco string) *shorthandResult {
	shorthandMu.Lock()
	defer shorthandMu.Unlock()
	if r, ok := shorthandCache[eco]; ok {
		return r
	}
	res := &shorthandResult{lines: map[string]string{}}
	shorthandCache[eco] = res
	pkg := w.byShort[eco]
	if pkg == nil {
		return res
	}
	for _, s := range shorthandEcos {
		if s.pkg != eco {
			continue
		}
		start := time.Now()
		out, _ := runOverlayTest(w, pkg, s.source(), 240*time.Second)
		res.secs = time.Since(start).Seconds()
		res.out = out
		for _, ln := range strings.Split(out, "\n") {
			if rest, ok := strings.CutPrefix(ln, "VERIF-C05 "); ok {
				if i := strings.Index(rest, " "); i > 0 {
					res.lines[rest[:i]] = rest[i+1:]
				}
			}
		}
	}
	return res
}

// shorthandConstructs lists the construct names of an ecosystem's table (parsed from the table source, so the set
// of obligations is fixed before the harness runs).
func (s shorthandEco) constructs() []string {
	seen := map[string]bool{}
	var out []string
	rest := s.cases
	for {
		i := strings.Index(rest, `construct: "`)
		if i < 0 {
			break
		}
		rest = rest[i+len(`construct: "`):]
		j := strings.Index(rest, `"`)
		if !seen[rest[:j]] {
			seen[rest[:j]] = true
			out = append(out, rest[:j])
		}
	}
	sort.Strings(out)
	return out
}

func (w *World) shorthandVCs() []VC {
	var vcs []VC
	for _, s := range shorthandEcos {
		s := s
		fn := w.funcs[s.pkg+".(*Ecosystem).NewVersionRange"]
		if fn == nil {
			continue
		}
		for _, c := range s.constructs() {
			c := c
			vcs = append(vcs, VC{Name: s.pkg + ".(*Ecosystem).NewVersionRange.shorthand[" + c + "].bounded", Prop: "C05", Kind: "bounded.api", Fn: s.pkg + ".(*Ecosystem).NewVersionRange", Pos: w.pos(fn.Pos()),
				Clause:  s.pkg + " " + c + ": NewVersionRange(text).Contains(v) is true exactly for the v inside the documented interval",
				Bounded: map[bool]string{false: "bases X,Y,Z in {0,1,2,9}; probes x.y.z with x,y,z in {0,1,2,3,4,9,10,11} plus boundary pre-/post-release forms",
					true: "bases X,Y,Z in {0,1,2,3,9,10,99}; probes x.y.z with x,y,z in {0,1,2,3,4,5,9,10,11,12,99,100,101} plus boundary pre-/post-release forms"}[harnessThorough],
				Run: func() SolveResult {
					r := runShorthand(w, s.pkg)
					res := SolveResult{Solver: "enumeration(go test -overlay)", Seconds: r.secs / float64(len(s.constructs()))}
					ln, ok := r.lines[c]
					switch {
					case !ok:
						res.Status, res.Output = "error", truncate(lastLines(r.out, 8), 1500)
					case strings.HasPrefix(ln, "OK"):
						res.Status, res.Output = "unsat", ln
					default:
						res.Status, res.Output = "sat", ln
						res.cx = &Counterexample{How: "real " + s.pkg + " NewVersionRange+Contains against the documented interval of the construct", Confirmed: true, Observed: ln, Output: ln}
					}
					return res
				}})
		}
	}
	return vcs
}

// shorthandFalsifier is the replay for a failed C05 contract clause: the first difference the ecosystem's per-construct
// harness finds on the real NewVersionRange+Contains.
func shorthandFalsifier(w *World, fn *ssa.Function, r vcResult) *Counterexample {
	eco := strings.SplitN(r.vc.Fn, ".", 2)[0]
	res := runShorthand(w, eco)
	cx := &Counterexample{How: "real " + eco + " NewVersionRange+Contains against the documented interval of every shorthand construct", Output: truncate(lastLines(res.out, 8), 1500), Observed: "no difference observed"}
	var keys []string
	for k := range res.lines {
		keys = append(keys, k)
	}
	sort.Strings(keys)
	known := map[string]bool{}
	for _, f := range loadFindings() {
		known[f.Obligation] = true
	}
	for _, k := range keys {
		ln := res.lines[k]
		if strings.HasPrefix(ln, "OK") || known[eco+".(*Ecosystem).NewVersionRange.shorthand["+k+"].bounded"] {
			continue
		}
		cx.Confirmed, cx.Observed = true, k+": "+ln
		break
	}
	return cx
}

package main

import (
	"fmt"
	"go/constant"
	"go/types"
	"strings"

	"golang.org/x/tools/go/ssa"
)

func (e *Exec) call(x *ssa.Call) {
	cc := &x.Call
	if b, ok := cc.Value.(*ssa.Builtin); ok {
		e.builtin(x, b)
		return
	}
	if cc.IsInvoke() {
		e.invoke(x)
		return
	}
	var args []Term
	if f := cc.StaticCallee(); f != nil {
		if isRepoPkg(pkgOf(f)) && f.Blocks != nil {
			if mc, ok := cc.Value.(*ssa.MakeClosure); ok {
				_ = mc
			}
			for _, a := range cc.Args {
				args = append(args, e.term(a))
			}
			e.setVal(x, e.callRepo(f, args, x))
			return
		}
		e.callLib(x, f)
		return
	}
	// dynamic call: known function value?
	fv := e.value(cc.Value)
	if fv.fn != nil && isRepoPkg(pkgOf(fv.fn)) {
		for _, a := range cc.Args {
			args = append(args, e.term(a))
		}
		e.setVal(x, e.callRepo(fv.fn, args, x))
		return
	}
	e.dynCall(x, fv)
}

func pkgOf(f *ssa.Function) *types.Package {
	if f.Pkg != nil {
		return f.Pkg.Pkg
	}
	if f.Origin() != nil && f.Origin().Pkg != nil {
		return f.Origin().Pkg.Pkg
	}
	if f.Parent() != nil {
		return pkgOf(f.Parent())
	}
	return nil
}

// resultVals wraps result terms as a val (tuple when several).
func resultVals(ts []Term) val {
	if len(ts) == 1 {
		return val{t: ts[0]}
	}
	var tup []val
	for _, t := range ts {
		tup = append(tup, val{t: t})
	}
	return val{tup: tup}
}

// callRepo: modular call of a repository function: pre obligation, result = F_f(args).
func (e *Exec) callRepo(f *ssa.Function, args []Term, x *ssa.Call) val {
	if f.Parent() != nil && e.w.contractOf(f) == nil && len(f.FreeVars) == 0 && len(e.w.loopsOf(f).loops) == 0 && e.inlineDepth() < 3 {
		// a small anonymous function without a contract (a local helper such as `isWildcard := func(...) bool {...}`):
		// its body is used directly (exact); its own run-time safety is checked when the function itself is verified
		e.root().inlines++
		sub := newExec(e.g, e.w, f, fmt.Sprintf("%sin%d_", e.pfx, e.root().inlines))
		sub.noObl = true
		sub.depth = e.inlineDepth() + 1
		sub.run(args)
		if e.g.unsupported == "" {
			if res, _ := sub.resultTerms(); true {
				var out []Term
				for i, r := range res {
					out = append(out, e.def(fmt.Sprintf("%s_%d", x.Name(), i), e.g.sortOf(f.Signature.Results().At(i).Type()), r))
				}
				if len(out) == 0 {
					return val{}
				}
				return resultVals(out)
			}
		}
	}
	res := e.g.useCallee(f, args)
	ct := e.w.contractOf(f)
	if !e.noObl && e.parent == nil {
		for _, t := range e.g.implicitRequires(f, args) {
			e.obligePre(f, t, x)
		}
	}
	if ct != nil && !e.noObl && e.parent == nil && f == e.fn {
		// a recursive call: the declared measure is non-negative and smaller for the arguments
		for _, cl := range ct.clauses {
			if cl.kind != "decreases" {
				continue
			}
			e.g.libDep("splitnosep")
			callee := e.g.calleeEnv(f, args)
			mArgs := callee.tr(cl.expr)
			caller := e.g.calleeEnv(f, e.root().params)
			mParams := caller.tr(cl.expr)
			if callee.err != "" || caller.err != "" {
				e.unsupported("decreases of " + f.Name() + ": " + callee.err + caller.err)
				return resultVals(res)
			}
			e.nRec++
			r := e.root()
			r.obls = append(r.obls, Obligation{Name: fmt.Sprintf("%s.recursion.decreases#%d", e.w.fnKey(e.fn), e.nRec), Kind: "inv", Cond: e.reach[e.curBlock],
				Goal: and("(<= 0 "+mParams.t+")", "(< "+mArgs.t+" "+mParams.t+")"), Pos: x.Pos(), Fn: e.w.fnKey(e.fn)})
		}
	}
	if ct != nil && !e.noObl && e.parent == nil {
		env := e.g.calleeEnv(f, args)
		for _, cl := range ct.clauses {
			if cl.kind != "requires" {
				continue
			}
			// goal mode: a quantified precondition is skolemized with the root's goal constants
			env.goalSk = e.root().goalSk
			t := env.trGoal(cl.expr)
			if env.err != "" {
				e.unsupported("requires of " + f.Name() + ": " + env.err)
				return resultVals(res)
			}
			e.obligePre(f, t.t, x)
		}
	}
	// the postconditions at this call site, stated for the actual arguments (the preconditions are proof obligations of
	// their own, so no quantified guard is needed here; quantified postconditions are instantiated at the goal constants)
	if ct != nil && e.parent == nil && f.Origin() == nil {
		// (not for an instance of a generic function: its clauses are written over the type parameters, and stating them
		// for concrete argument types mixed the sorts - the scripts of vers.pypiContains were rejected by the solvers under
		// C04; the quantified axioms of the generic function remain available)
		env := e.g.calleeEnv(f, args)
		for _, cl := range ct.clauses {
			if cl.kind != "ensures" || !e.g.tagAllowed(cl.tags) || e.w.clauseIsFinding(f, cl, cl.ord) || (len(cl.using) > 0 && !usesPublic(cl.using)) {
				continue // (a clause that needs invariant groups is a heavy quantified fact: not handed to callers, unless
				// its `using` list names the pseudo-group `public`)
			}
			env.instAt = e.root().goalSk
			t := env.tr(cl.expr)
			env.instAt = nil
			if env.err != "" {
				break
			}
			e.assume(implies(e.reach[e.curBlock], t.t))
		}
	}
	// name results and assume type invariants
	sig := f.Signature
	var out []Term
	for i, r := range res {
		rt := sig.Results().At(i).Type()
		t := e.def(fmt.Sprintf("%s_%d", x.Name(), i), e.g.sortOf(rt), r)
		if inv := e.typeInv(rt, t); inv != "true" && e.parent == nil {
			e.assume(implies(e.reach[e.curBlock], inv))
		}
		out = append(out, t)
	}
	if len(out) == 0 {
		return val{}
	}
	return resultVals(out)
}

func (e *Exec) obligePre(f *ssa.Function, goal Term, x *ssa.Call) {
	r := e.root()
	r.nobl["pre"]++
	name := fmt.Sprintf("%s.pre@%s#%d", e.w.fnKey(e.fn), f.Name(), r.nobl["pre"])
	r.obls = append(r.obls, Obligation{Name: name, Kind: "pre", Cond: e.reach[e.curBlock], Goal: goal, Pos: x.Pos(), Fn: e.w.fnKey(e.fn)})
}

// fsym: name(s) of the uninterpreted result function(s) of f.
func (g *Gen) fsym(f *ssa.Function, i, n int) string {
	base := "F_" + sanitize(g.w.fnKey(f))
	if n <= 1 {
		return base
	}
	return fmt.Sprintf("%s_%d", base, i)
}

// useCallee declares F_f, emits the axioms its contract licenses and returns F_f(args) per result.
func (g *Gen) useCallee(f *ssa.Function, args []Term) []Term {
	if o := f.Origin(); o != nil {
		f = o // instantiations share the generic function's symbol and contract
	}
	sig := f.Signature
	n := sig.Results().Len()
	if !g.callees[f] {
		g.callees[f] = true
		g.calleeOrd = append(g.calleeOrd, f)
		var ps []string
		for _, p := range f.Params {
			ps = append(ps, g.sortOf(p.Type()))
		}
		for i := 0; i < n; i++ {
			g.declare(fmt.Sprintf("(declare-fun %s (%s) %s)", g.fsym(f, i, n), strings.Join(ps, " "), g.sortOf(sig.Results().At(i).Type())))
		}
		g.calleeAxioms(f)
	}
	var out []Term
	for i := 0; i < n; i++ {
		if len(args) == 0 {
			out = append(out, g.fsym(f, i, n))
		} else {
			out = append(out, "("+g.fsym(f, i, n)+" "+strings.Join(args, " ")+")")
		}
	}
	return out
}

func (g *Gen) tagAllowed(tags []string) bool {
	if g.tags == nil || len(tags) == 0 {
		return true
	}
	for _, t := range tags {
		if g.tags[t] {
			return true
		}
	}
	return false
}

// calleeEnv: environment binding f's parameter names to args and result to F_f(args).
func (g *Gen) calleeEnv(f *ssa.Function, args []Term) *exprEnv {
	env := &exprEnv{g: g, w: g.w, pkg: f.Pkg, vars: map[string]typedTerm{}}
	if env.pkg == nil && f.Origin() != nil {
		env.pkg = f.Origin().Pkg
	}
	for i, p := range f.Params {
		if i < len(args) {
			env.vars[p.Name()] = typedTerm{t: args[i], typ: p.Type()}
			env.args = append(env.args, typedTerm{t: args[i], typ: p.Type()})
		}
	}
	sig := f.Signature
	n := sig.Results().Len()
	for i := 0; i < n; i++ {
		var t Term
		if len(args) == 0 {
			t = g.fsym(f, i, n)
		} else {
			t = "(" + g.fsym(f, i, n) + " " + strings.Join(args, " ") + ")"
		}
		env.result = append(env.result, typedTerm{t: t, typ: sig.Results().At(i).Type()})
	}
	return env
}

// calleeAxioms: forall params. typeInv & requires => ensures, for clauses whose tags are allowed.
func (g *Gen) calleeAxioms(f *ssa.Function) {
	ct := g.w.contractOf(f)
	sig := f.Signature
	n := sig.Results().Len()
	var ps, as []string
	var invs []Term
	tmp := &Exec{g: g, w: g.w, fn: f}
	for i, p := range f.Params {
		nm := fmt.Sprintf("a%d!%s", i, sanitize(p.Name()))
		ps = append(ps, "("+nm+" "+g.sortOf(p.Type())+")")
		as = append(as, nm)
		invs = append(invs, tmp.typeInv(p.Type(), nm))
	}
	// result type invariants always hold
	env := g.calleeEnv(f, as)
	var pat string
	if n > 0 && len(as) > 0 {
		pat = env.result[0].t
	}
	quant := func(body Term) Term {
		if len(ps) == 0 {
			return body
		}
		if pat != "" {
			return fmt.Sprintf("(forall (%s) (! %s :pattern (%s)))", strings.Join(ps, " "), body, pat)
		}
		return fmt.Sprintf("(forall (%s) %s)", strings.Join(ps, " "), body)
	}
	for i := 0; i < n; i++ {
		if inv := tmp.typeInv(sig.Results().At(i).Type(), env.result[i].t); inv != "true" {
			g.assert(quant(inv))
		}
	}
	if ct == nil {
		return
	}
	reqs := g.implicitRequires(f, as)
	for _, cl := range ct.clauses {
		if cl.kind == "requires" {
			t := env.tr(cl.expr)
			reqs = append(reqs, t.t)
		}
	}
	guard := and(append(invs, reqs...)...)
	nlaw := 0
	exact := false
	for _, cl := range ct.clauses {
		if cl.kind == "ensures" && g.tagAllowed(cl.tags) && cl.expr.op == "binary" && cl.expr.name == "==" && cl.expr.args[0].op == "ident" && cl.expr.args[0].name == "result" {
			exact = true // the result is characterised exactly: the order laws would only add instantiation noise
		}
	}
	for _, cl := range ct.clauses {
		switch cl.kind {
		case "ensures", "assume":
			if !g.tagAllowed(cl.tags) {
				continue
			}
			if cl.kind == "ensures" && g.w.clauseIsFinding(f, cl, cl.ord) {
				continue // a recorded finding is never used as a premise
			}
			if len(cl.using) > 0 && !usesPublic(cl.using) {
				continue // heavy quantified clause (proved with invariant groups): not a premise for callers
			}
			// a quantified postcondition is also instantiated at the goal constants of the function being verified
			env.instAt = g.goalSk
			t := env.tr(cl.expr)
			env.instAt = nil
			if env.err != "" {
				g.unsupported = fmt.Sprintf("contract of %s: %s", g.w.fnKey(f), env.err)
				return
			}
			g.assert(quant(implies(guard, t.t)))
		case "comparator":
			nlaw++
			if !g.tagAllowed(cl.tags) {
				continue
			}
			if exact {
				continue
			}
			g.lawAxioms(f, ct, cl, g.w.lawFindings(f, nlaw)) // recorded findings are never used as premises
		}
	}
}

// lawAxioms: the total-preorder laws of a comparator callee as quantified axioms.
func (g *Gen) lawAxioms(f *ssa.Function, ct *Contract, cl *Clause, skip map[string]bool) {
	// positions of left/right params
	idx := map[string]int{}
	for i, p := range f.Params {
		idx[p.Name()] = i
	}
	k := len(cl.left)
	mk := func(pfx string) ([]string, []string) {
		var decl, names []string
		for i, nm := range cl.left {
			p := f.Params[idx[nm]]
			n := fmt.Sprintf("%s%d", pfx, i)
			decl = append(decl, "("+n+" "+g.sortOf(p.Type())+")")
			names = append(names, n)
		}
		return decl, names
	}
	app := func(x, y []string) Term {
		args := make([]Term, len(f.Params))
		for i := 0; i < k; i++ {
			args[idx[cl.left[i]]] = x[i]
			args[idx[cl.right[i]]] = y[i]
		}
		return "(" + g.fsym(f, 0, 1) + " " + strings.Join(args, " ") + ")"
	}
	guardOf := func(x, y []string) Term {
		args := make([]Term, len(f.Params))
		for i := 0; i < k; i++ {
			args[idx[cl.left[i]]] = x[i]
			args[idx[cl.right[i]]] = y[i]
		}
		env := g.calleeEnv(f, args)
		var gs []Term
		tmp := &Exec{g: g, w: g.w, fn: f}
		for i, p := range f.Params {
			gs = append(gs, tmp.typeInv(p.Type(), args[i]))
		}
		gs = append(gs, g.implicitRequires(f, args)...)
		for _, c := range ct.clauses {
			if c.kind == "requires" {
				gs = append(gs, env.tr(c.expr).t)
			}
		}
		if cl.where != nil {
			gs = append(gs, env.tr(cl.where).t)
		}
		return and(gs...)
	}
	da, a := mk("x!")
	db, b := mk("y!")
	dc, c := mk("z!")
	fab, fba, fbc, fac, faa := app(a, b), app(b, a), app(b, c), app(a, c), app(a, a)
	if skip["bounded"] {
		return
	}
	if !skip["range"] {
		g.assert(fmt.Sprintf("(forall (%s) (! (=> %s (and (<= (- 1) %s) (<= %s 1))) :pattern (%s)))", strings.Join(append(da, db...), " "), guardOf(a, b), fab, fab, fab))
	}
	if !skip["refl"] {
		g.assert(fmt.Sprintf("(forall (%s) (! (=> %s (= %s 0)) :pattern (%s)))", strings.Join(da, " "), guardOf(a, a), faa, faa))
	}
	if !skip["antisym"] {
		g.assert(fmt.Sprintf("(forall (%s) (! (=> (and %s %s) (= %s (- %s))) :pattern (%s)))", strings.Join(append(da, db...), " "), guardOf(a, b), guardOf(b, a), fab, fba, fab))
	}
	if skip["trans"] {
		return
	}
	all := strings.Join(append(append(da, db...), dc...), " ")
	gd := and(guardOf(a, b), guardOf(b, c), guardOf(a, c))
	g.assert(fmt.Sprintf("(forall (%s) (! (=> (and %s (<= %s 0) (<= %s 0)) (and (<= %s 0) (=> (or (< %s 0) (< %s 0)) (< %s 0)))) :pattern (%s %s)))", all, gd, fab, fbc, fac, fab, fbc, fac, fab, fbc))
}

// ---------------------------------------------------------------- builtins

func (e *Exec) builtin(x *ssa.Call, b *ssa.Builtin) {
	args := x.Call.Args
	switch b.Name() {
	case "len":
		t := args[0].Type()
		// reading the length creates no alias of the backing array: no escape is recorded for a cell-backed slice
		v := e.peekTerm(e.value(args[0]), t)
		switch t.Underlying().(type) {
		case *types.Basic:
			e.defVal(x, "(str_len "+v+")")
		case *types.Slice:
			e.defVal(x, "(len_"+e.g.sortOf(t)+" "+v+")")
		case *types.Map:
			e.unsupported("len of map")
		default:
			e.unsupported("len of " + t.String())
		}
	case "append":
		st := x.Type()
		s := e.g.sortOf(st)
		base := e.term(args[0])
		if len(args) != 2 {
			e.unsupported("append arity")
			return
		}
		if isString(args[1].Type()) {
			e.unsupported("append string to bytes")
			return
		}
		add := e.term(args[1])
		// variadic part is a slice value; common case: literal array of known length
		n, ok := e.knownLen(args[1])
		if !ok {
			// append(xs, ys...) with symbolic length: result elements defined pointwise
			r := e.havoc("app", s, e.isTainted(base) || e.isTainted(add))
			e.assume(implies(e.reach[e.curBlock], fmt.Sprintf("(and (= (len_%s %s) (+ (len_%s %s) (len_%s %s))) (= (off_%s %s) 0) (not (nil_%s %s)))", s, r, s, base, s, add, s, r, s, r)))
			i := e.g.fresh("i")
			var ps []string
			for _, bv := range e.bound {
				ps = append(ps, "("+bv.name+" "+bv.sort+")")
			}
			ps = append(ps, "("+i+" Int)")
			sel := func(v, ix Term) Term { return fmt.Sprintf("(select (arr_%s %s) (+ (off_%s %s) %s))", s, v, s, v, ix) }
			e.g.assert(fmt.Sprintf("(forall (%s) (! (=> (and %s (<= 0 %s) (< %s (len_%s %s))) (= %s %s)) :pattern (%s)))", strings.Join(ps, " "), e.reach[e.curBlock], i, i, s, base, sel(r, i), sel(base, i), sel(r, i)))
			e.g.assert(fmt.Sprintf("(forall (%s) (! (=> (and %s (<= 0 %s) (< %s (len_%s %s))) (= %s %s)) :pattern (%s)))", strings.Join(ps, " "), e.reach[e.curBlock], i, i, s, add, sel(r, "(+ (len_"+s+" "+base+") "+i+")"), sel(add, i), sel(add, i)))
			if e.parent == nil && len(e.bound) == 0 {
				// index shifts of the concatenation: candidate witnesses for existentials over positions
				e.root().concatLens = append(e.root().concatLens, fmt.Sprintf("(len_%s %s)", s, base))
			}
			e.setVal(x, val{t: r})
			return
		}
		if e.parent == nil && len(e.bound) == 0 && n == 1 && len(e.root().appendAt) < 6 {
			// the position a single appended element lands on: a candidate witness for "some element of the new slice is …"
			e.root().appendAt = append(e.root().appendAt, fmt.Sprintf("(len_%s %s)", s, base))
		}
		arr := fmt.Sprintf("(arr_%s %s)", s, base)
		for i := 0; i < n; i++ {
			arr = fmt.Sprintf("(store %s (+ (off_%s %s) (len_%s %s) %d) (select (arr_%s %s) (+ (off_%s %s) %d)))", arr, s, base, s, base, i, s, add, s, add, i)
		}
		e.defVal(x, fmt.Sprintf("(mk_%s false %s (off_%s %s) (+ (len_%s %s) %d))", s, arr, s, base, s, base, n))
	case "max", "min":
		a, b2 := e.term(args[0]), e.term(args[1])
		if len(args) != 2 || !isInteger(args[0].Type()) {
			e.unsupported("max/min form")
			return
		}
		if b.Name() == "max" {
			e.defVal(x, ite("(>= "+a+" "+b2+")", a, b2))
		} else {
			e.defVal(x, ite("(<= "+a+" "+b2+")", a, b2))
		}
	default:
		e.unsupported("builtin " + b.Name())
	}
}

// knownLen: static length of a slice value built from a literal array.
func (e *Exec) knownLen(v ssa.Value) (int, bool) {
	sl, ok := v.(*ssa.Slice)
	if !ok {
		return 0, false
	}
	pt, ok := sl.X.Type().Underlying().(*types.Pointer)
	if !ok {
		return 0, false
	}
	at, ok := pt.Elem().Underlying().(*types.Array)
	if !ok || sl.Low != nil || sl.High != nil {
		return 0, false
	}
	return int(at.Len()), true
}

// ---------------------------------------------------------------- interface method calls

func (e *Exec) invoke(x *ssa.Call) {
	cc := &x.Call
	recv := e.term(cc.Value)
	rs := e.g.sortOf(cc.Value.Type())
	args := []Term{recv}
	sorts := []string{rs}
	for _, a := range cc.Args {
		args = append(args, e.term(a))
		sorts = append(sorts, e.g.sortOf(a.Type()))
	}
	sig := cc.Signature()
	n := sig.Results().Len()
	var out []Term
	for i := 0; i < n; i++ {
		name := fmt.Sprintf("M_%s_%s", sanitize(rs), cc.Method.Name())
		if n > 1 {
			name += fmt.Sprintf("_%d", i)
		}
		rsort := e.g.sortOf(sig.Results().At(i).Type())
		if !e.g.funSeen[name] {
			e.g.funSeen[name] = true
			e.g.declare(fmt.Sprintf("(declare-fun %s (%s) %s)", name, strings.Join(sorts, " "), rsort))
			e.g.ifaceAxioms(name, cc.Method.Name(), i, sorts, rsort)
		}
		t := e.def(fmt.Sprintf("%s_%d", x.Name(), i), rsort, "("+name+" "+strings.Join(args, " ")+")")
		if inv := e.typeInv(sig.Results().At(i).Type(), t); inv != "true" {
			e.assume(implies(e.reach[e.curBlock], inv))
		}
		out = append(out, t)
	}
	if n == 0 {
		e.setVal(x, val{})
		return
	}
	e.setVal(x, resultVals(out))
}

// ---------------------------------------------------------------- Sprintf and friends

func constString(v ssa.Value) (string, bool) {
	c, ok := v.(*ssa.Const)
	if !ok || c.Value == nil || c.Value.Kind() != constant.String {
		return "", false
	}
	return constant.StringVal(c.Value), true
}

func (e *Exec) inlineDepth() int { return e.depth }

// usesPublic: a clause proved with invariant groups is a premise for callers only when it opts in with the pseudo-group
// `public` (it switches no invariant on; it only marks the clause as small enough to be handed out).
func usesPublic(using []string) bool {
	for _, u := range using {
		if u == "public" {
			return true
		}
	}
	return false
}

package main

// SSA -> SMT translation of one function activation ("Exec").
//
// Encoding: loops are cut at their back edges; the acyclic remainder is
// encoded with one reachability Boolean per block, phi nodes as ite over
// incoming edge conditions, local memory (cells) merged cell-wise at joins.
// A loop is entered at an arbitrary iteration K: loop-carried phis are
// havocked (or constrained by a derived/declared invariant), the unit-stride
// induction variable gets the auto-summary  forall j in [init,K). Cont(j).

import (
	"fmt"
	"go/token"
	"go/types"
	"sort"
	"strings"

	"golang.org/x/tools/go/ssa"
)

type cell struct {
	id    int
	name  string
	typ   types.Type // type of the content
	alloc ssa.Value
	kind  string // "var", "slice", "map", "builder"
}

type pathElem struct {
	field int    // >=0: struct field index
	index Term   // else index term
	typ   types.Type // type of the container this element applies to
}

// lval is a symbolic address.
type lval struct {
	cell *cell // rooted at a local cell …
	root Term  // … or at an immutable value (type rootT)
	rootT types.Type
	path []pathElem
	guard Term // safety condition accumulated while forming the address (nil deref, bounds) – already emitted as obligations
}

type val struct {
	t    Term
	lv   *lval // address value
	cell *cell // cell-backed slice/map/builder value
	tup  []val // tuple
	fn   *ssa.Function // known function value
	clo  []val         // closure bindings
}

type Obligation struct {
	Name  string
	Kind  string
	Cond  Term // path condition under which Goal must hold
	Goal  Term
	Pos   token.Pos
	Fn    string
	Extra []string // extra script lines (assumptions specific to this obligation)
	Groups []string // loop-invariant groups switched on for this obligation
	InvOf  string   // set for the init/step obligations of a declared invariant: "-" for an ungrouped one, else its group
}

type retInfo struct {
	reach Term
	vals  []Term
}

type Exec struct {
	g      *Gen
	w      *World
	fn     *ssa.Function
	pfx    string
	parent *Exec
	bound  []boundVar
	vals   map[ssa.Value]val
	reach  map[*ssa.BasicBlock]Term
	edge   map[[2]*ssa.BasicBlock]Term
	cellsOut map[*ssa.BasicBlock]map[*cell]Term
	cur    map[*cell]Term
	cells  map[ssa.Value]*cell
	rets   []retInfo
	obls   []Obligation
	noObl  bool
	loops  *loopInfo
	curBlock *ssa.BasicBlock
	taint  map[string]bool
	nobl   map[string]int
	subset map[*ssa.BasicBlock]bool // restrict translation to these blocks (loop sub-pass)
	loopHead *ssa.BasicBlock        // sub-pass: header of the loop being summarised
	contTerms []Term
	params []Term
	escapes map[*cell]bool
	escapeAt map[*cell][]*ssa.BasicBlock
	lateStore map[*cell]bool
	unrollDepth map[*ssa.BasicBlock]int
	summaries []loopSummary
	outputs   []outputEvent
	exits     []outputEvent
	dynCalls  []dynCallInfo
	pendingInv []pendingInv
	prebound map[ssa.Value]bool
	loadedFrom map[ssa.Value]*lval // values loaded from a path inside a local cell
	goalSk []Term
	dirty  map[string]bool
	sorts  []sortEvent
	rebinds map[ssa.Value][]rebind
	inlines int
	loopKs  []Term // iteration indices of the loops of this activation (instantiation points)
	nRec       int    // recursive call sites seen
	boundFacts []Term // facts assumed for every value of the single bound variable (type invariants of loaded values)
	contFacts  []Term // the boundFacts of the last contOf, with @J@ for the iteration variable
	appendAt   []Term // lengths of slices just before a single element is appended (candidate witnesses)
	concatLens []Term // lengths of the left operands of append(xs, ys...) with a symbolic ys
	existsInvMemo int // 0 unknown, 1 no, 2 yes
	reinst    bool   // an assumed invariant is being re-instantiated (its witnesses are not registered again)
	witGroup  map[Term]string // group of the invariant a named witness comes from ("" = ungrouped)
	curGroup  string          // group of the invariant being assumed
	goalGroups []string       // groups switched on for the goal being translated
	assumeWit []Term // named witnesses of existentials in assumed loop invariants (instantiation points, candidate witnesses)
	depth   int
	invRecords []invRecord
	extraInst  []Term
	closures []*ssa.Function // function constants materialised by this activation
	mapLits  map[*cell][][2]Term // straight-line map literals: the (key, value) pairs stored so far
}

func (e *Exec) root() *Exec {
	for e.parent != nil {
		e = e.parent
	}
	return e
}

func (e *Exec) unsupported(msg string) {
	if e.g.unsupported == "" {
		e.g.unsupported = msg
	}
}

func (e *Exec) lookup(v ssa.Value) (val, bool) {
	// a value rebound by an in-place library call (slices.SortFunc) has its new contents only where the call dominates
	if rbs := e.root().rebinds[v]; len(rbs) > 0 && e.curBlock != nil {
		for i := len(rbs) - 1; i >= 0; i-- {
			if rbs[i].block == e.curBlock || rbs[i].block.Dominates(e.curBlock) {
				return rbs[i].v, true
			}
		}
	}
	for x := e; x != nil; x = x.parent {
		if r, ok := x.vals[v]; ok {
			return r, true
		}
	}
	return val{}, false
}

type rebind struct {
	block *ssa.BasicBlock
	v     val
}

func (e *Exec) isTainted(t Term) bool {
	if len(e.allTaint()) == 0 {
		return false
	}
	tt := e.allTaint()
	for _, tok := range tokenize(t) {
		if tt[tok] {
			return true
		}
	}
	return false
}

func (e *Exec) allTaint() map[string]bool {
	return e.root().taint
}

func tokenize(t string) []string {
	return strings.FieldsFunc(t, func(r rune) bool { return r == '(' || r == ')' || r == ' ' || r == '\n' })
}

// name/define helpers ---------------------------------------------------

func (e *Exec) def(base, sort_ string, term Term) Term {
	name := e.g.fresh(e.pfx + base)
	r := e.g.defConst(name, sort_, term, e.bound)
	if e.isTainted(term) {
		e.root().taint[name] = true
	}
	return r
}

func (e *Exec) havoc(base, sort_ string, tainted bool) Term {
	name := e.g.fresh(e.pfx + base)
	r := e.g.declConst(name, sort_, e.bound)
	if tainted {
		e.root().taint[name] = true
	}
	return r
}

// assume asserts a fact (universally closed over the bound variables).
func (e *Exec) assume(t Term) {
	if t == "true" {
		return
	}
	if len(e.bound) == 0 {
		e.g.assert(t)
		return
	}
	var ps []string
	var gs []Term
	for _, b := range e.bound {
		ps = append(ps, "("+b.name+" "+b.sort+")")
		if b.sort == "Int" {
			gs = append(gs, "(inr64 "+b.name+")")
		}
	}
	e.g.assert(fmt.Sprintf("(forall (%s) %s)", strings.Join(ps, " "), implies(and(gs...), t)))
	if len(e.bound) == 1 {
		e.boundFacts = append(e.boundFacts, t) // also instantiated explicitly where the loop summary is
	}
}

// typeInv: facts true of every Go value of type t.
func (e *Exec) typeInv(t types.Type, x Term) Term {
	switch tt := t.Underlying().(type) {
	case *types.Basic:
		if tt.Info()&types.IsInteger != 0 {
			lo, hi := intRange(tt)
			return "(and (<= " + lo + " " + x + ") (<= " + x + " " + hi + "))"
		}
	case *types.Slice:
		s := e.g.sortOf(t)
		return fmt.Sprintf("(and (<= 0 (len_%s %s)) (<= 0 (off_%s %s)) (<= (len_%s %s) 4611686018427387904) (=> (nil_%s %s) (= (len_%s %s) 0)))", s, x, s, x, s, x, s, x, s, x)
	}
	return "true"
}

func intRange(b *types.Basic) (string, string) {
	switch b.Kind() {
	case types.Int8:
		return "(- 128)", "127"
	case types.Int16:
		return "(- 32768)", "32767"
	case types.Int32, types.UntypedRune:
		return "(- 2147483648)", "2147483647"
	case types.Uint8:
		return "0", "255"
	case types.Uint16:
		return "0", "65535"
	case types.Uint32:
		return "0", "4294967295"
	case types.Uint, types.Uint64, types.Uintptr:
		return "0", "18446744073709551615"
	}
	return minInt64, maxInt64
}

// ---------------------------------------------------------------- values

func (e *Exec) term(v ssa.Value) Term {
	x := e.value(v)
	return e.asTerm(x, v.Type())
}

// asTerm turns a val into a plain SMT term (snapshotting addresses / cells).
func (e *Exec) asTerm(x val, t types.Type) Term {
	if x.lv != nil {
		// pointer value: snapshot
		ps := e.g.sortOf(t)
		content := e.load(x.lv)
		if x.lv.cell != nil {
			e.noteEscape(x.lv.cell)
		}
		return "(ptr_" + ps + " " + content + ")"
	}
	if x.cell != nil {
		e.noteEscape(x.cell)
		return e.cellGet(x.cell)
	}
	if x.t == "" && x.fn != nil {
		return e.fnConst(x.fn)
	}
	return x.t
}

func (e *Exec) noteEscape(c *cell) {
	r := e.root()
	r.escapes[c] = true
	if r.escapeAt == nil {
		r.escapeAt = map[*cell][]*ssa.BasicBlock{}
	}
	r.escapeAt[c] = append(r.escapeAt[c], e.curBlock)
}

// escapedBefore: some recorded escape of c can be followed (in the control-flow graph) by the current block.
func (e *Exec) escapedBefore(c *cell) bool {
	r := e.root()
	if !r.escapes[c] {
		return false
	}
	for _, from := range r.escapeAt[c] {
		if from == nil || from == e.curBlock {
			return true
		}
		seen := map[*ssa.BasicBlock]bool{from: true}
		stack := []*ssa.BasicBlock{from}
		for len(stack) > 0 {
			b := stack[len(stack)-1]
			stack = stack[:len(stack)-1]
			for _, s := range b.Succs {
				if s == e.curBlock {
					return true
				}
				if !seen[s] {
					seen[s] = true
					stack = append(stack, s)
				}
			}
		}
	}
	return false
}

// peekTerm: like asTerm but without recording an escape (used by specifications only).
func (e *Exec) peekTerm(x val, t types.Type) Term {
	if x.lv != nil {
		return "(ptr_" + e.g.sortOf(t) + " " + e.load(x.lv) + ")"
	}
	if x.cell != nil {
		return e.cellGet(x.cell)
	}
	if x.t == "" && x.fn != nil {
		return e.fnConst(x.fn)
	}
	return x.t
}

func (e *Exec) fnConst(f *ssa.Function) Term {
	e.g.sortOf(f.Signature)
	if r := e.root(); r != nil {
		seen := false
		for _, c := range r.closures {
			if c == f {
				seen = true
			}
		}
		if !seen {
			r.closures = append(r.closures, f)
		}
	}
	name := "fn_" + sanitize(f.String())
	if !e.g.funSeen[name] {
		e.g.funSeen[name] = true
		e.g.sortDecl = append(e.g.sortDecl, fmt.Sprintf("(declare-fun %s () Fn)", name))
		e.g.fnConsts = append(e.g.fnConsts, name)
	}
	return name
}

func (e *Exec) value(v ssa.Value) val {
	switch vv := v.(type) {
	case *ssa.Const:
		return val{t: e.g.constTerm(vv)}
	case *ssa.Global:
		// address of a global
		return val{lv: &lval{root: e.globalTerm(vv), rootT: vv.Type().(*types.Pointer).Elem()}}
	case *ssa.Function:
		return val{fn: vv}
	case *ssa.Builtin:
		return val{t: "builtin"}
	}
	if r, ok := e.lookup(v); ok {
		return r
	}
	e.unsupported(fmt.Sprintf("%s: use of undefined value %s (%T) in %s", e.fn.Name(), v.Name(), v, v.String()))
	return val{t: e.havoc("undef", e.g.sortOf(v.Type()), true)}
}

func (e *Exec) globalTerm(gl *ssa.Global) Term {
	t := gl.Type().(*types.Pointer).Elem()
	name := "G_" + shortPkg(gl.Pkg.Pkg) + "_" + sanitize(gl.Name())
	if !e.g.funSeen[name] {
		e.g.funSeen[name] = true
		s := e.g.sortOf(t)
		e.g.sortDecl = append(e.g.sortDecl, fmt.Sprintf("(declare-fun %s () %s)", name, s))
		e.g.globalUsed(gl, name)
	}
	return name
}

// ---------------------------------------------------------------- memory

func (e *Exec) cellGet(c *cell) Term {
	for x := e; x != nil; x = x.parent {
		if t, ok := x.cur[c]; ok {
			return t
		}
	}
	// never initialised on this path: zero value
	return e.g.zero(c.typ)
}

func (e *Exec) cellSet(c *cell, t Term) {
	e.cur[c] = e.def("m_"+c.name, e.g.sortOf(c.typ), t)
}

func (e *Exec) readPath(v Term, t types.Type, path []pathElem) (Term, types.Type) {
	for _, p := range path {
		v, t = e.readElem(v, t, p)
	}
	return v, t
}

func (e *Exec) readElem(v Term, t types.Type, p pathElem) (Term, types.Type) {
	if p.field >= 0 {
		st, nt := structOf(t)
		if st == nil {
			e.unsupported("field of non-struct " + t.String())
			return v, t
		}
		s := e.g.sortOf(nt)
		f := st.Field(p.field)
		return "(" + e.g.fieldAcc(s, f.Name()) + " " + v + ")", f.Type()
	}
	switch tt := t.Underlying().(type) {
	case *types.Slice:
		s := e.g.sortOf(t)
		return fmt.Sprintf("(select (arr_%s %s) (+ (off_%s %s) %s))", s, v, s, v, p.index), tt.Elem()
	case *types.Array:
		return fmt.Sprintf("(select %s %s)", v, p.index), tt.Elem()
	}
	e.unsupported("index of " + t.String())
	return v, t
}

func (e *Exec) writePath(v Term, t types.Type, path []pathElem, nv Term) Term {
	if len(path) == 0 {
		return nv
	}
	p := path[0]
	if p.field >= 0 {
		st, nt := structOf(t)
		s := e.g.sortOf(nt)
		var fs []string
		for i := 0; i < st.NumFields(); i++ {
			acc := "(" + e.g.fieldAcc(s, st.Field(i).Name()) + " " + v + ")"
			if i == p.field {
				fs = append(fs, e.writePath(acc, st.Field(i).Type(), path[1:], nv))
			} else {
				fs = append(fs, acc)
			}
		}
		return "(mk_" + s + " " + strings.Join(fs, " ") + ")"
	}
	switch tt := t.Underlying().(type) {
	case *types.Slice:
		s := e.g.sortOf(t)
		idx := fmt.Sprintf("(+ (off_%s %s) %s)", s, v, p.index)
		old := fmt.Sprintf("(select (arr_%s %s) %s)", s, v, idx)
		return fmt.Sprintf("(mk_%s (nil_%s %s) (store (arr_%s %s) %s %s) (off_%s %s) (len_%s %s))", s, s, v, s, v, idx, e.writePath(old, tt.Elem(), path[1:], nv), s, v, s, v)
	case *types.Array:
		old := fmt.Sprintf("(select %s %s)", v, p.index)
		return fmt.Sprintf("(store %s %s %s)", v, p.index, e.writePath(old, tt.Elem(), path[1:], nv))
	}
	e.unsupported("store into " + t.String())
	return v
}

func (e *Exec) load(lv *lval) Term {
	if lv.cell == nil && e.pathDirty(lv) {
		_, t := e.readPathType(lv.rootT, lv.path)
		return e.havoc("dirty", e.g.sortOf(t), true)
	}
	if lv.cell != nil {
		t, _ := e.readPath(e.cellGet(lv.cell), lv.cell.typ, lv.path)
		return t
	}
	t, _ := e.readPath(lv.root, lv.rootT, lv.path)
	return t
}

// pathDirty: the function writes this field through a non-local address somewhere (flow-insensitive pre-scan).
func (e *Exec) pathDirty(lv *lval) bool {
	r := e.root()
	if r.dirty == nil {
		r.dirty = map[string]bool{}
		for _, b := range r.fn.Blocks {
			for _, in := range b.Instrs {
				st, ok := in.(*ssa.Store)
				if !ok || storeRoot(st.Addr) != nil {
					continue
				}
				for a := st.Addr; a != nil; {
					switch x := a.(type) {
					case *ssa.FieldAddr:
						if stt, _ := structOf(x.X.Type()); stt != nil {
							r.dirty[stt.Field(x.Field).Name()] = true
						}
						a = x.X
					case *ssa.IndexAddr:
						r.dirty["[]"] = true
						a = x.X
					default:
						a = nil
					}
				}
			}
		}
	}
	if len(r.dirty) == 0 {
		return false
	}
	t := lv.rootT
	for _, p := range lv.path {
		if p.field >= 0 {
			st, _ := structOf(t)
			if st == nil {
				return false
			}
			if r.dirty[st.Field(p.field).Name()] {
				return true
			}
			t = st.Field(p.field).Type()
			continue
		}
		if r.dirty["[]"] {
			return true
		}
		switch tt := t.Underlying().(type) {
		case *types.Slice:
			t = tt.Elem()
		case *types.Array:
			t = tt.Elem()
		}
	}
	return false
}

func (e *Exec) lvType(lv *lval) types.Type {
	if lv.cell != nil {
		_, t := e.readPathType(lv.cell.typ, lv.path)
		return t
	}
	_, t := e.readPathType(lv.rootT, lv.path)
	return t
}

func (e *Exec) readPathType(t types.Type, path []pathElem) (bool, types.Type) {
	for _, p := range path {
		if p.field >= 0 {
			st, _ := structOf(t)
			if st == nil {
				return false, t
			}
			t = st.Field(p.field).Type()
			continue
		}
		switch tt := t.Underlying().(type) {
		case *types.Slice:
			t = tt.Elem()
		case *types.Array:
			t = tt.Elem()
		}
	}
	return true, t
}

func (e *Exec) store(lv *lval, nv Term, pos token.Pos) {
	if lv.cell == nil {
		// write to memory this activation does not own: a C19 frame violation (reported there).  The value
		// semantics model ignores the write; every later read of an affected field is havocked (see dirty).
		return
	}
	if e.escapedBefore(lv.cell) {
		e.root().lateStore[lv.cell] = true
	}
	e.cellSet(lv.cell, e.writePath(e.cellGet(lv.cell), lv.cell.typ, lv.path, nv))
}

func (e *Exec) newCell(v ssa.Value, t types.Type, kind string) *cell {
	r := e.root()
	if c, ok := r.cells[v]; ok {
		return c
	}
	c := &cell{id: len(r.cells), name: fmt.Sprintf("c%d", len(r.cells)), typ: t, alloc: v, kind: kind}
	r.cells[v] = c
	return c
}

// ---------------------------------------------------------------- obligations

func (e *Exec) oblige(kind string, goal Term, pos token.Pos) {
	if e.noObl || e.parent != nil {
		return
	}
	r := e.root()
	r.nobl[kind]++
	name := fmt.Sprintf("%s.%s#%d", e.w.fnKey(e.fn), kind, r.nobl[kind])
	r.obls = append(r.obls, Obligation{Name: name, Kind: kind, Cond: e.reach[e.curBlock], Goal: goal, Pos: pos, Fn: e.w.fnKey(e.fn)})
}

// ---------------------------------------------------------------- driver

func newExec(g *Gen, w *World, fn *ssa.Function, pfx string) *Exec {
	e := &Exec{g: g, w: w, fn: fn, pfx: pfx, vals: map[ssa.Value]val{}, reach: map[*ssa.BasicBlock]Term{},
		edge: map[[2]*ssa.BasicBlock]Term{}, cellsOut: map[*ssa.BasicBlock]map[*cell]Term{}, cells: map[ssa.Value]*cell{},
		taint: map[string]bool{}, nobl: map[string]int{}, escapes: map[*cell]bool{}, lateStore: map[*cell]bool{}, cur: map[*cell]Term{}}
	return e
}

// run executes fn with the given parameter terms (nil = fresh symbolic parameters).
// pre is assumed as the entry condition.
func (e *Exec) run(params []Term) {
	fn := e.fn
	if fn.Blocks == nil {
		e.unsupported("no body: " + fn.String())
		return
	}
	if e.parent == nil && !e.noObl {
		for i := 0; i < 2; i++ {
			e.goalSk = append(e.goalSk, e.havoc("gsk", "Int", false))
		}
		e.g.goalSk = e.goalSk
	}
	e.loops = e.w.loopsOf(fn)
	if e.loops.irreducible {
		e.unsupported("irreducible control flow in " + fn.String())
		return
	}
	if ct := e.w.contractOf(fn); ct != nil && e.parent == nil {
		for n := range ct.loops {
			if n < 1 || n > len(e.loops.loops) {
				e.unsupported(fmt.Sprintf("the contract names loop %d, the function has %d loops", n, len(e.loops.loops)))
				return
			}
		}
	}
	for i, p := range fn.Params {
		var t Term
		if params != nil && i < len(params) && params[i] != "" {
			t = params[i]
		} else {
			t = e.havoc("p_"+p.Name(), e.g.sortOf(p.Type()), false)
			e.assume(e.typeInv(p.Type(), t))
		}
		e.vals[p] = val{t: t}
		e.params = append(e.params, t)
	}
	for _, fv := range fn.FreeVars {
		// captured variable: pointer to an outer cell; modelled as immutable snapshot value
		pt, ok := fv.Type().(*types.Pointer)
		if !ok {
			e.vals[fv] = val{t: e.havoc("fv_"+fv.Name(), e.g.sortOf(fv.Type()), false)}
			continue
		}
		t := e.havoc("fv_"+fv.Name(), e.g.sortOf(pt.Elem()), false)
		e.vals[fv] = val{lv: &lval{root: t, rootT: pt.Elem()}}
	}
	e.runBlocks(e.loops.rpo, nil)
	if e.g.unsupported == "" {
		e.finishInvariants()
	}
}

// runBlocks translates blocks (in reverse post-order, back edges ignored).
func (e *Exec) runBlocks(order []*ssa.BasicBlock, subset map[*ssa.BasicBlock]bool) {
	for _, b := range order {
		if subset != nil && !subset[b] {
			continue
		}
		e.block(b)
		if e.g.unsupported != "" {
			return
		}
	}
}

func (e *Exec) edgeCond(from, to *ssa.BasicBlock) Term {
	if t, ok := e.edge[[2]*ssa.BasicBlock{from, to}]; ok {
		return t
	}
	return "false"
}

func (e *Exec) block(b *ssa.BasicBlock) {
	e.curBlock = b
	li := e.loops
	isHeader := li.header[b] != nil
	// reach = OR of incoming forward edges
	var preds []*ssa.BasicBlock
	for _, p := range b.Preds {
		if li.isBackEdge(p, b) {
			continue
		}
		if e.subset != nil && !e.subset[p] {
			continue
		}
		preds = append(preds, p)
	}
	var reach Term
	if e.subset != nil && b == e.loopHead {
		reach = "true"
		preds = nil
	} else if b.Index == 0 {
		reach = "true"
	} else {
		var es []Term
		for _, p := range preds {
			es = append(es, e.edgeCond(p, b))
		}
		reach = or(es...)
	}
	reach = e.def(fmt.Sprintf("r%d", b.Index), "Bool", reach)
	e.reach[b] = reach

	// merge cells
	if !(e.subset != nil && b == e.loopHead) {
		e.cur = map[*cell]Term{}
		if len(preds) == 1 {
			for c, t := range e.cellsOut[preds[0]] {
				e.cur[c] = t
			}
		} else if len(preds) > 1 {
			all := map[*cell]bool{}
			for _, p := range preds {
				for c := range e.cellsOut[p] {
					all[c] = true
				}
			}
			var cs []*cell
			for c := range all {
				cs = append(cs, c)
			}
			sort.Slice(cs, func(i, j int) bool { return cs[i].id < cs[j].id })
			for _, c := range cs {
				var acc Term
				same := true
				var first Term
				for i, p := range preds {
					t, ok := e.cellsOut[p][c]
					if !ok {
						t = e.parentCellOr(c)
					}
					if i == 0 {
						first = t
					} else if t != first {
						same = false
					}
				}
				if same {
					e.cur[c] = first
					continue
				}
				for i := len(preds) - 1; i >= 0; i-- {
					p := preds[i]
					t, ok := e.cellsOut[p][c]
					if !ok {
						t = e.parentCellOr(c)
					}
					if acc == "" {
						acc = t
					} else {
						acc = ite(e.edgeCond(p, b), t, acc)
					}
				}
				e.cur[c] = e.def("m_"+c.name, e.g.sortOf(c.typ), acc)
			}
		}
	}

	if isHeader && !(e.subset != nil && b == e.loopHead && e.loopHead != nil && e.contMode()) {
		e.loopHeader(b, preds)
	} else if isHeader {
		// sub-pass header: phis bound by caller
	}

	for _, in := range b.Instrs {
		e.instr(b, in, preds)
		if e.g.unsupported != "" {
			return
		}
	}
	out := map[*cell]Term{}
	for c, t := range e.cur {
		out[c] = t
	}
	e.cellsOut[b] = out
}

func (e *Exec) contMode() bool { return e.subset != nil }

func (e *Exec) inAnyLoop(b *ssa.BasicBlock) bool {
	for _, l := range e.loops.loops {
		if l.blocks[b] {
			return true
		}
	}
	return false
}

func (e *Exec) parentCellOr(c *cell) Term {
	if e.parent != nil {
		return e.parent.cellGet(c)
	}
	return e.g.zero(c.typ)
}

// ---------------------------------------------------------------- instructions

func (e *Exec) setVal(v ssa.Value, x val) { e.vals[v] = x }

func (e *Exec) defVal(v ssa.Value, term Term) {
	s := e.g.sortOf(v.Type())
	t := e.def(v.Name(), s, term)
	e.vals[v] = val{t: t}
	if e.parent != nil {
		// quantified (loop-summary) context: the type invariant is not asserted as a quantified fact, only remembered so that
		// it can be stated where the summary is instantiated explicitly
		if len(e.bound) == 1 {
			if inv := e.typeInv(v.Type(), t); inv != "true" {
				e.boundFacts = append(e.boundFacts, implies(e.reach[e.curBlock], inv))
			}
		}
		return
	}
	if inv := e.typeInv(v.Type(), t); inv != "true" {
		e.assume(implies(e.reach[e.curBlock], inv))
	}
}

func (e *Exec) instr(b *ssa.BasicBlock, in ssa.Instruction, preds []*ssa.BasicBlock) {
	if v, ok := in.(ssa.Value); ok && e.prebound[v] {
		return
	}
	switch x := in.(type) {
	case *ssa.DebugRef:
	case *ssa.Phi:
		if e.loops.header[b] != nil {
			if _, ok := e.vals[x]; ok {
				return // bound by loop handling
			}
		}
		e.phi(b, x, preds)
	case *ssa.If:
		c := e.term(x.Cond)
		r := e.reach[b]
		e.edge[[2]*ssa.BasicBlock{b, b.Succs[0]}] = e.def(fmt.Sprintf("e%d_%d", b.Index, b.Succs[0].Index), "Bool", and(r, c))
		if b.Succs[0] != b.Succs[1] {
			e.edge[[2]*ssa.BasicBlock{b, b.Succs[1]}] = e.def(fmt.Sprintf("e%d_%d", b.Index, b.Succs[1].Index), "Bool", and(r, not(c)))
		} else {
			e.edge[[2]*ssa.BasicBlock{b, b.Succs[0]}] = r
		}
	case *ssa.Jump:
		e.edge[[2]*ssa.BasicBlock{b, b.Succs[0]}] = e.reach[b]
	case *ssa.Return:
		var vs []Term
		for _, r := range x.Results {
			vs = append(vs, e.term(r))
		}
		e.root().rets = append(e.root().rets, retInfo{reach: e.reach[b], vals: vs})
		if e.parent != nil {
			// returns inside a quantified loop body are exits; nothing to record
			e.root().rets = e.root().rets[:len(e.root().rets)-1]
		}
	case *ssa.Panic:
		e.oblige("panic", "false", x.Pos())
	case *ssa.Alloc:
		pt := x.Type().(*types.Pointer).Elem()
		if nt, ok := pt.(*types.Named); ok && nt.Obj().Pkg() != nil && nt.Obj().Pkg().Path() == "strings" && nt.Obj().Name() == "Builder" {
			pt = types.Typ[types.String]
		}
		c := e.newCell(x, pt, "var")
		delete(e.root().escapes, c) // a fresh object per execution of the allocation
		delete(e.root().escapeAt, c)
		e.cur[c] = e.g.zero(pt)
		e.setVal(x, val{lv: &lval{cell: c}})
	case *ssa.MakeSlice:
		c := e.newCell(x, x.Type(), "slice")
		delete(e.root().escapes, c)
		delete(e.root().escapeAt, c)
		s := e.g.sortOf(x.Type())
		n := e.term(x.Len)
		e.oblige("makeslice", "(>= "+n+" 0)", x.Pos())
		et := x.Type().Underlying().(*types.Slice).Elem()
		e.cur[c] = e.def("mk", s, fmt.Sprintf("(mk_%s false %s 0 %s)", s, e.g.constArray("Int", et), n))
		e.setVal(x, val{cell: c})
	case *ssa.MakeMap:
		c := e.newCell(x, x.Type(), "map")
		delete(e.root().escapes, c)
		delete(e.root().escapeAt, c)
		s := e.g.sortOf(x.Type())
		mt := x.Type().Underlying().(*types.Map)
		e.cur[c] = e.def("mkmap", s, fmt.Sprintf("(mk_%s false %s ((as const (Array %s Bool)) false))", s, e.g.constArray(e.g.sortOf(mt.Key()), mt.Elem()), e.g.sortOf(mt.Key())))
		e.setVal(x, val{cell: c})
	case *ssa.FieldAddr:
		base := e.value(x.X)
		var lv *lval
		if base.lv != nil {
			lv = &lval{cell: base.lv.cell, root: base.lv.root, rootT: base.lv.rootT, path: append(append([]pathElem{}, base.lv.path...), pathElem{field: x.Field})}
		} else {
			// pointer value term
			ps := e.g.sortOf(x.X.Type())
			e.oblige("nil", "(not ((_ is nil_"+ps+") "+base.t+"))", x.Pos())
			lv = &lval{root: "(deref_" + ps + " " + base.t + ")", rootT: x.X.Type().(*types.Pointer).Elem(), path: []pathElem{{field: x.Field}}}
		}
		e.setVal(x, val{lv: lv})
	case *ssa.IndexAddr:
		base := e.value(x.X)
		idx := e.term(x.Index)
		var lv *lval
		switch bt := x.X.Type().Underlying().(type) {
		case *types.Slice:
			s := e.g.sortOf(x.X.Type())
			var sl Term
			if base.cell != nil {
				sl = e.cellGet(base.cell)
				lv = &lval{cell: base.cell, path: []pathElem{{field: -1, index: idx}}}
			} else if from := e.root().loadedFrom[x.X]; from != nil {
				// slice held in a field of a local object: element writes update that object
				sl = base.t
				lv = &lval{cell: from.cell, path: append(append([]pathElem{}, from.path...), pathElem{field: -1, index: idx})}
			} else {
				sl = base.t
				lv = &lval{root: sl, rootT: x.X.Type(), path: []pathElem{{field: -1, index: idx}}}
			}
			e.oblige("index", fmt.Sprintf("(and (<= 0 %s) (< %s (len_%s %s)))", idx, idx, s, sl), x.Pos())
		case *types.Pointer: // pointer to array
			at := bt.Elem().Underlying().(*types.Array)
			e.oblige("index", fmt.Sprintf("(and (<= 0 %s) (< %s %d))", idx, idx, at.Len()), x.Pos())
			if base.lv != nil {
				lv = &lval{cell: base.lv.cell, root: base.lv.root, rootT: base.lv.rootT, path: append(append([]pathElem{}, base.lv.path...), pathElem{field: -1, index: idx})}
			} else {
				ps := e.g.sortOf(x.X.Type())
				lv = &lval{root: "(deref_" + ps + " " + base.t + ")", rootT: bt.Elem(), path: []pathElem{{field: -1, index: idx}}}
			}
		default:
			e.unsupported("IndexAddr on " + x.X.Type().String())
			return
		}
		e.setVal(x, val{lv: lv})
	case *ssa.Index:
		// string or array indexing
		idx := e.term(x.Index)
		switch x.X.Type().Underlying().(type) {
		case *types.Basic:
			s := e.term(x.X)
			e.oblige("index", fmt.Sprintf("(and (<= 0 %s) (< %s (str_len %s)))", idx, idx, s), x.Pos())
			e.defVal(x, "(str_at "+s+" "+idx+")")
		default:
			e.unsupported("Index on " + x.X.Type().String())
		}
	case *ssa.Lookup:
		e.lookupInstr(x)
	case *ssa.UnOp:
		e.unop(x)
	case *ssa.BinOp:
		e.binop(x)
	case *ssa.Store:
		addr := e.value(x.Addr)
		if addr.lv == nil {
			// store through a pointer value that is not a tracked address: ignored (frame violation, see C19); reads are havocked via dirty
			return
		}
		e.store(addr.lv, e.term(x.Val), x.Pos())
	case *ssa.MapUpdate:
		m := e.value(x.Map)
		if m.cell == nil {
			// update of a shared map: ignored here (frame violation, see C19); reads of mutable globals are havocked
			return
		}
		s := e.g.sortOf(x.Map.Type())
		old := e.cellGet(m.cell)
		k, v := e.term(x.Key), e.term(x.Value)
		if r := e.root(); e.parent == nil && e.loops.header != nil && !e.inAnyLoop(e.curBlock) {
			if r.mapLits == nil {
				r.mapLits = map[*cell][][2]Term{}
			}
			r.mapLits[m.cell] = append(r.mapLits[m.cell], [2]Term{k, v})
		} else if r := e.root(); r.mapLits != nil {
			r.mapLits[m.cell] = append(r.mapLits[m.cell], [2]Term{"", ""}) // poisoned: contents no longer a literal
		}
		e.cellSet(m.cell, fmt.Sprintf("(mk_%s false (store (val_%s %s) %s %s) (store (has_%s %s) %s true))", s, s, old, k, v, s, old, k))
	case *ssa.Slice:
		e.sliceInstr(x)
	case *ssa.Call:
		e.call(x)
	case *ssa.Extract:
		t := e.value(x.Tuple)
		if x.Index < len(t.tup) {
			e.setVal(x, t.tup[x.Index])
		} else {
			e.unsupported("extract from non-tuple")
		}
	case *ssa.MakeInterface:
		e.makeInterface(x)
	case *ssa.ChangeInterface:
		from, to := e.g.sortOf(x.X.Type()), e.g.sortOf(x.Type())
		switch {
		case from == to:
			e.setVal(x, e.value(x.X))
		case to == "Any" && from == "Err":
			e.defVal(x, "(any_err "+e.term(x.X)+")")
		case to == "Any":
			e.defVal(x, fmt.Sprintf("(any_other %d %s)", e.w.typeTag(x.X.Type()), e.opaqueID(x.X.Type(), e.term(x.X))))
		default:
			e.unsupported("interface conversion " + from + " -> " + to)
		}
	case *ssa.ChangeType:
		e.setVal(x, e.value(x.X))
	case *ssa.Convert:
		e.convert(x)
	case *ssa.TypeAssert:
		e.typeAssert(x)
	case *ssa.MakeClosure:
		var binds []val
		for _, bnd := range x.Bindings {
			binds = append(binds, e.value(bnd))
		}
		e.setVal(x, val{fn: x.Fn.(*ssa.Function), clo: binds})
	case *ssa.Range:
		if _, ok := x.X.Type().Underlying().(*types.Basic); !ok {
			e.unsupported("range over " + x.X.Type().String())
			return
		}
		e.setVal(x, val{t: e.term(x.X)})
	case *ssa.Next:
		if _, ok := e.vals[x]; !ok {
			e.unsupported("next outside a recognised loop header")
		}
	default:
		e.unsupported(fmt.Sprintf("instruction %T in %s", in, e.fn.Name()))
	}
}

func (e *Exec) phi(b *ssa.BasicBlock, x *ssa.Phi, preds []*ssa.BasicBlock) {
	// function-valued / address-valued phis: snapshot to terms
	var acc Term
	s := e.g.sortOf(x.Type())
	first := true
	for i := len(b.Preds) - 1; i >= 0; i-- {
		p := b.Preds[i]
		if e.loops.isBackEdge(p, b) {
			continue
		}
		if e.subset != nil && !e.subset[p] {
			continue
		}
		t := e.term(x.Edges[i])
		if first {
			acc = t
			first = false
		} else {
			acc = ite(e.edgeCond(p, b), t, acc)
		}
	}
	if first {
		acc = e.havoc("phi_"+x.Name(), s, true)
	}
	e.defVal(x, acc)
}

func (e *Exec) unop(x *ssa.UnOp) {
	switch x.Op {
	case token.MUL: // load
		a := e.value(x.X)
		if a.lv != nil {
			t := e.load(a.lv)
			if gl, ok := x.X.(*ssa.Global); ok {
				if e.w.mutableGlobal(gl) {
					// written outside init: its value at this point is unknown
					e.setVal(x, val{t: e.havoc("mutglobal", e.g.sortOf(x.Type()), true)})
					return
				}
				// value of a global that is immutable after init (C19): keep symbolic identity
				e.setVal(x, val{t: t})
				return
			}
			e.defVal(x, t)
			if a.lv.cell != nil {
				r := e.root()
				if r.loadedFrom == nil {
					r.loadedFrom = map[ssa.Value]*lval{}
				}
				r.loadedFrom[x] = a.lv
			}
			return
		}
		// load through pointer value
		ps := e.g.sortOf(x.X.Type())
		e.oblige("nil", "(not ((_ is nil_"+ps+") "+a.t+"))", x.Pos())
		e.defVal(x, "(deref_"+ps+" "+a.t+")")
	case token.NOT:
		e.defVal(x, not(e.term(x.X)))
	case token.SUB:
		e.defVal(x, "(wrap64 (- "+e.term(x.X)+"))")
	default:
		e.unsupported("unop " + x.Op.String())
	}
}

func isString(t types.Type) bool {
	b, ok := t.Underlying().(*types.Basic)
	return ok && b.Info()&types.IsString != 0
}
func isInteger(t types.Type) bool {
	b, ok := t.Underlying().(*types.Basic)
	return ok && b.Info()&types.IsInteger != 0
}

func (e *Exec) binop(x *ssa.BinOp) {
	a, b := e.term(x.X), e.term(x.Y)
	t := x.X.Type()
	str := isString(t)
	var r Term
	switch x.Op {
	case token.ADD:
		if str {
			r = "(str_cat " + a + " " + b + ")"
		} else {
			r = e.wrap(t, "(+ "+a+" "+b+")")
		}
	case token.SUB:
		r = e.wrap(t, "(- "+a+" "+b+")")
	case token.MUL:
		r = e.wrap(t, "(* "+a+" "+b+")")
	case token.QUO:
		e.oblige("div", "(not (= "+b+" 0))", x.Pos())
		// Go truncated division
		r = fmt.Sprintf("(ite (>= %s 0) (ite (> %s 0) (div %s %s) (- (div %s (- %s)))) (ite (> %s 0) (- (div (- %s) %s)) (div (- %s) (- %s))))", a, b, a, b, a, b, b, a, b, a, b)
		r = e.wrap(t, r)
	case token.REM:
		e.oblige("div", "(not (= "+b+" 0))", x.Pos())
		r = fmt.Sprintf("(ite (>= %s 0) (mod %s %s) (- (mod (- %s) %s)))", a, a, b, a, b)
	case token.EQL:
		r = e.eqTerm(x.X, x.Y, a, b)
	case token.NEQ:
		r = not(e.eqTerm(x.X, x.Y, a, b))
	case token.LSS:
		if str {
			r = "(str_lt " + a + " " + b + ")"
		} else {
			r = "(< " + a + " " + b + ")"
		}
	case token.GTR:
		if str {
			r = "(str_lt " + b + " " + a + ")"
		} else {
			r = "(> " + a + " " + b + ")"
		}
	case token.LEQ:
		if str {
			r = "(not (str_lt " + b + " " + a + "))"
		} else {
			r = "(<= " + a + " " + b + ")"
		}
	case token.GEQ:
		if str {
			r = "(not (str_lt " + a + " " + b + "))"
		} else {
			r = "(>= " + a + " " + b + ")"
		}
	default:
		e.unsupported("binop " + x.Op.String())
		return
	}
	e.defVal(x, r)
}

func (e *Exec) wrap(t types.Type, x Term) Term {
	b, ok := t.Underlying().(*types.Basic)
	if !ok {
		return x
	}
	switch b.Kind() {
	case types.Int, types.Int64:
		return "(wrap64 " + x + ")"
	case types.Uint8:
		return "(mod " + x + " 256)"
	case types.Int32:
		return "(- (mod (+ " + x + " 2147483648) 4294967296) 2147483648)"
	case types.Uint64, types.Uint, types.Uintptr:
		return "(mod " + x + " 18446744073709551616)"
	case types.Uint32:
		return "(mod " + x + " 4294967296)"
	}
	e.unsupported("arithmetic on " + t.String())
	return x
}

// eqTerm: Go equality; comparisons against nil for slices test the nil flag.
func (e *Exec) eqTerm(xv, yv ssa.Value, a, b Term) Term {
	t := xv.Type()
	switch t.Underlying().(type) {
	case *types.Slice:
		s := e.g.sortOf(t)
		if c, ok := yv.(*ssa.Const); ok && c.Value == nil {
			return "(nil_" + s + " " + a + ")"
		}
		if c, ok := xv.(*ssa.Const); ok && c.Value == nil {
			return "(nil_" + s + " " + b + ")"
		}
		e.unsupported("slice comparison")
	case *types.Map:
		s := e.g.sortOf(t)
		if c, ok := yv.(*ssa.Const); ok && c.Value == nil {
			return "(nil_" + s + " " + a + ")"
		}
		e.unsupported("map comparison")
	case *types.Pointer:
		// only nil tests are meaningful under value semantics
		s := e.g.sortOf(t)
		if c, ok := yv.(*ssa.Const); ok && c.Value == nil {
			return "((_ is nil_" + s + ") " + a + ")"
		}
		if c, ok := xv.(*ssa.Const); ok && c.Value == nil {
			return "((_ is nil_" + s + ") " + b + ")"
		}
		e.unsupported(fmt.Sprintf("%s: pointer identity comparison", e.fn.Name()))
	}
	return eq(a, b)
}

func (e *Exec) sliceInstr(x *ssa.Slice) {
	base := e.value(x.X)
	var lo, hi Term
	if x.Low != nil {
		lo = e.term(x.Low)
	} else {
		lo = "0"
	}
	if x.Max != nil {
		e.unsupported("3-index slice")
		return
	}
	switch bt := x.X.Type().Underlying().(type) {
	case *types.Basic: // string
		s := e.asTerm(base, x.X.Type())
		if x.High != nil {
			hi = e.term(x.High)
		} else {
			hi = "(str_len " + s + ")"
		}
		e.oblige("slice", fmt.Sprintf("(and (<= 0 %s) (<= %s %s) (<= %s (str_len %s)))", lo, lo, hi, hi, s), x.Pos())
		e.defVal(x, fmt.Sprintf("(str_sub %s %s %s)", s, lo, hi))
	case *types.Slice:
		srt := e.g.sortOf(x.X.Type())
		s := e.asTerm(base, x.X.Type())
		if x.High != nil {
			hi = e.term(x.High)
		} else {
			hi = "(len_" + srt + " " + s + ")"
		}
		// note: Go allows hi up to cap; we require hi <= len (stricter, sound for safety)
		e.oblige("slice", fmt.Sprintf("(and (<= 0 %s) (<= %s %s) (<= %s (len_%s %s)))", lo, lo, hi, hi, srt, s), x.Pos())
		e.defVal(x, fmt.Sprintf("(mk_%s false (arr_%s %s) (+ (off_%s %s) %s) (- %s %s))", srt, srt, s, srt, s, lo, hi, lo))
	case *types.Pointer: // pointer to array
		at, ok := bt.Elem().Underlying().(*types.Array)
		if !ok || base.lv == nil {
			e.unsupported("slice of " + x.X.Type().String())
			return
		}
		if x.High != nil {
			hi = e.term(x.High)
		} else {
			hi = fmt.Sprint(at.Len())
		}
		content := e.load(base.lv)
		if base.lv.cell != nil {
			e.noteEscape(base.lv.cell)
		}
		srt := e.g.sortOf(x.Type())
		e.oblige("slice", fmt.Sprintf("(and (<= 0 %s) (<= %s %s) (<= %s %d))", lo, lo, hi, hi, at.Len()), x.Pos())
		e.defVal(x, fmt.Sprintf("(mk_%s false %s %s (- %s %s))", srt, content, lo, hi, lo))
	default:
		e.unsupported("slice of " + x.X.Type().String())
	}
}

func (e *Exec) lookupInstr(x *ssa.Lookup) {
	if isString(x.X.Type()) {
		s, idx := e.term(x.X), e.term(x.Index)
		e.oblige("index", fmt.Sprintf("(and (<= 0 %s) (< %s (str_len %s)))", idx, idx, s), x.Pos())
		e.defVal(x, "(str_at "+s+" "+idx+")")
		return
	}
	m := e.value(x.X)
	k := e.term(x.Index)
	s := e.g.sortOf(x.X.Type())
	mt := e.asTerm(m, x.X.Type())
	v := fmt.Sprintf("(select (val_%s %s) %s)", s, mt, k)
	ok := fmt.Sprintf("(select (has_%s %s) %s)", s, mt, k)
	elemT := x.X.Type().Underlying().(*types.Map).Elem()
	if m.cell != nil {
		// a map built by straight-line updates (a map literal): read it as a chain of key tests
		if ents := e.root().mapLits[m.cell]; len(ents) > 0 {
			lit := true
			for _, en := range ents {
				if en[0] == "" {
					lit = false
				}
			}
			if lit {
				v = e.g.zero(elemT)
				ok = "false"
				for _, en := range ents {
					v = ite(eq(k, en[0]), en[1], v)
					ok = ite(eq(k, en[0]), "true", ok)
				}
			}
		}
	}
	if x.CommaOk {
		tv := e.def(x.Name()+"_v", e.g.sortOf(elemT), ite(ok, v, e.g.zero(elemT)))
		to := e.def(x.Name()+"_ok", "Bool", ok)
		var vv val
		if _, isFn := elemT.Underlying().(*types.Signature); isFn {
			vv = val{t: tv}
		} else {
			vv = val{t: tv}
		}
		e.setVal(x, val{tup: []val{vv, {t: to}}})
		return
	}
	e.defVal(x, ite(ok, v, e.g.zero(elemT)))
}

func (e *Exec) makeInterface(x *ssa.MakeInterface) {
	s := e.g.sortOf(x.Type())
	v := e.term(x.X)
	switch s {
	case "Any":
		xt := x.X.Type()
		switch {
		case isInteger(xt):
			e.defVal(x, "(any_int "+v+")")
		case isString(xt):
			e.defVal(x, "(any_str "+v+")")
		case e.g.sortOf(xt) == "Bool":
			e.defVal(x, "(any_bool "+v+")")
		case e.g.sortOf(xt) == "Err":
			e.defVal(x, "(any_err "+v+")")
		default:
			e.defVal(x, fmt.Sprintf("(any_other %d %s)", e.w.typeTag(xt), e.opaqueID(xt, v)))
		}
	case "Err":
		// concrete error type wrapped: non-nil
		e.g.needErr()
		t := e.havoc("err", "Err", false)
		e.assume(not(eq(t, "err_nil")))
		e.setVal(x, val{t: t})
	default:
		// interface with methods: keep the dynamic value through an injection function
		e.defVal(x, e.g.boxTerm(x.X.Type(), s, v, e.w))
	}
}

func (e *Exec) opaqueID(t types.Type, v Term) Term {
	s := e.g.sortOf(t)
	fn := "id_" + sanitize(s)
	if !e.g.funSeen[fn] {
		e.g.funSeen[fn] = true
		e.g.declare(fmt.Sprintf("(declare-fun %s (%s) Int)", fn, s))
	}
	return "(" + fn + " " + v + ")"
}

func (e *Exec) convert(x *ssa.Convert) {
	from, to := x.X.Type(), x.Type()
	v := e.term(x.X)
	switch {
	case isInteger(from) && isInteger(to):
		// value-preserving when in range; wrap otherwise
		fb, tb := from.Underlying().(*types.Basic), to.Underlying().(*types.Basic)
		flo, fhi := intRange(fb)
		tlo, thi := intRange(tb)
		if (flo == tlo && fhi == thi) || widens(fb.Kind(), tb.Kind()) {
			e.defVal(x, v)
		} else {
			e.defVal(x, e.wrap(to, v))
		}
	case isString(from) && isString(to):
		e.defVal(x, v)
	case isInteger(from) && isString(to):
		// string(rune)
		r := e.libCall("string_of_rune", []string{"Int"}, "Str", []Term{v})
		e.defVal(x, r)
	default:
		e.unsupported(fmt.Sprintf("convert %s -> %s", from, to))
	}
}

func widens(from, to types.BasicKind) bool {
	switch from {
	case types.Uint8:
		return to != types.Int8
	case types.Int32, types.UntypedRune:
		return to == types.Int || to == types.Int64
	case types.Int8, types.Int16:
		return to == types.Int || to == types.Int64 || to == types.Int32
	case types.Uint16, types.Uint32:
		return to == types.Int || to == types.Int64 || to == types.Uint64 || to == types.Uint
	}
	return false
}

func (e *Exec) typeAssert(x *ssa.TypeAssert) {
	v := e.term(x.X)
	s := e.g.sortOf(x.X.Type())
	if s != "Any" {
		e.unsupported("type assertion on " + x.X.Type().String())
		return
	}
	var is, get Term
	switch {
	case isInteger(x.AssertedType):
		is, get = "((_ is any_int) "+v+")", "(int_of "+v+")"
	case isString(x.AssertedType):
		is, get = "((_ is any_str) "+v+")", "(str_of "+v+")"
	case e.g.sortOf(x.AssertedType) == "Bool":
		is, get = "((_ is any_bool) "+v+")", "(bool_of "+v+")"
	default:
		e.unsupported("type assertion to " + x.AssertedType.String())
		return
	}
	if x.CommaOk {
		tv := e.def(x.Name()+"_v", e.g.sortOf(x.AssertedType), ite(is, get, e.g.zero(x.AssertedType)))
		e.setVal(x, val{tup: []val{{t: tv}, {t: e.def(x.Name()+"_ok", "Bool", is)}}})
		return
	}
	e.oblige("typeassert", is, x.Pos())
	e.defVal(x, get)
}

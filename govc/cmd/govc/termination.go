package main

// Termination (part of C06).  Every loop of every repository function is put into one of four classes:
//   range     - `for … range x` over a slice, string, integer or map: Go evaluates the range once, the loop is bounded by it
//   counted   - an index that goes up by one on every back edge and a header test `i < n` with n fixed during the loop
//   variant   - a `loop N decreases e` clause in the contract; the obligations `F.loopN.decreases@latch` (SMT) show that e
//               is non-negative at the head and smaller after every iteration
//   undecided - anything else
// One obligation per function with loops (`F.termination`, back end govc-loopshape) is discharged when none of its loops is
// undecided; `callgraph.acyclic` is discharged when no repository function can reach itself through static calls
// (no recursion), so that a function terminates when its loops and its callees do.  Library callees are assumed to
// terminate (regexp matching in Go is linear-time by construction).  The time bound of C06 is not decided.

import (
	"fmt"
	"go/token"
	"sort"
	"strings"

	"golang.org/x/tools/go/ssa"
)

func loopInvariantValue(v ssa.Value, l *loop) bool {
	switch x := v.(type) {
	case *ssa.Const, *ssa.Parameter, *ssa.FreeVar, *ssa.Global:
		return true
	case *ssa.Call:
		if b, ok := x.Call.Value.(*ssa.Builtin); ok && b.Name() == "len" && len(x.Call.Args) == 1 {
			return loopInvariantValue(x.Call.Args[0], l)
		}
	}
	if in, ok := v.(ssa.Instruction); ok && in.Block() != nil {
		return !l.blocks[in.Block()]
	}
	return false
}

func classifyLoop(w *World, fn *ssa.Function, l *loop, li *loopInfo) string {
	// range over string / map: a Next instruction in the header
	if headerNext(l) != nil {
		return "range"
	}
	for _, in := range l.head.Instrs {
		if phi, ok := in.(*ssa.Phi); ok && (phi.Comment == "rangeindex" || phi.Comment == "rangeint.iter") {
			return "range"
		}
	}
	if ct := w.contractOf(fn); ct != nil {
		if ls := ct.loops[l.ordinal]; ls != nil && len(ls.decreases) > 0 {
			return "variant"
		}
	}
	ind, _ := inductionPhi(l, li)
	if ind != nil && len(l.head.Instrs) > 0 {
		if iff, ok := l.head.Instrs[len(l.head.Instrs)-1].(*ssa.If); ok && len(l.head.Succs) == 2 && l.blocks[l.head.Succs[0]] && !l.blocks[l.head.Succs[1]] {
			if cmp, ok := iff.Cond.(*ssa.BinOp); ok && cmp.Op == token.LSS && cmp.Block() == l.head {
				x := cmp.X
				if x == ssa.Value(ind) || (headerInc(l, ind) != nil && x == ssa.Value(headerInc(l, ind))) {
					if loopInvariantValue(cmp.Y, l) {
						return "counted"
					}
				}
			}
		}
	}
	return "undecided"
}

func (w *World) terminationVCs() []VC {
	var vcs []VC
	fns := append([]*ssa.Function{}, w.repoFunctions()...)
	sort.Slice(fns, func(i, j int) bool { return w.fnKey(fns[i]) < w.fnKey(fns[j]) })
	// static call graph among repository functions (closures count as callees of the function that creates them)
	edges := map[*ssa.Function][]*ssa.Function{}
	inRepo := map[*ssa.Function]bool{}
	for _, f := range fns {
		inRepo[f] = true
	}
	for _, f := range fns {
		for _, b := range f.Blocks {
			for _, in := range b.Instrs {
				switch x := in.(type) {
				case ssa.CallInstruction:
					if c := x.Common().StaticCallee(); c != nil {
						if o := c.Origin(); o != nil {
							c = o
						}
						if inRepo[c] {
							edges[f] = append(edges[f], c)
						}
					}
				case *ssa.MakeClosure:
					if c, ok := x.Fn.(*ssa.Function); ok && inRepo[c] {
						edges[f] = append(edges[f], c)
					}
				}
			}
		}
		for _, an := range f.AnonFuncs {
			if inRepo[an] {
				edges[f] = append(edges[f], an)
			}
		}
	}
	var cyc []string
	state := map[*ssa.Function]int{}
	var visit func(f *ssa.Function)
	visit = func(f *ssa.Function) {
		state[f] = 1
		for _, c := range edges[f] {
			if state[c] == 1 {
				if c == f && hasMeasure(w, f) {
					continue // direct recursion with a declared measure: F.recursion.decreases#n are its obligations
				}
				cyc = append(cyc, w.fnKey(f)+" -> "+w.fnKey(c))
			} else if state[c] == 0 {
				visit(c)
			}
		}
		state[f] = 2
	}
	for _, f := range fns {
		if state[f] == 0 {
			visit(f)
		}
	}
	nDyn := 0
	for _, f := range fns {
		for _, b := range f.Blocks {
			for _, in := range b.Instrs {
				if x, ok := in.(ssa.CallInstruction); ok && x.Common().StaticCallee() == nil && !x.Common().IsInvoke() {
					if _, isB := x.Common().Value.(*ssa.Builtin); !isB {
						nDyn++
					}
				}
			}
		}
	}
	vcs = append(vcs, VC{Name: "callgraph.acyclic", Prop: "C06", Kind: "term", Fn: "callgraph",
		Clause: fmt.Sprintf("no repository function reaches itself through static calls or the closures it creates (%d functions; %d calls through function values and all interface method calls are not followed: their targets are the registry closures and the ecosystem methods, which are themselves in the graph)", len(fns), nDyn),
		Run: func() SolveResult {
			if len(cyc) == 0 {
				return SolveResult{Status: "unsat", Solver: "govc-loopshape"}
			}
			return SolveResult{Status: "unknown", Solver: "govc-loopshape", Output: "recursion: " + strings.Join(cyc, "; ")}
		}})
	for _, f := range fns {
		if f.Blocks == nil {
			continue
		}
		li := w.loopsOf(f)
		if len(li.loops) == 0 {
			continue
		}
		counts := map[string]int{}
		var undec []string
		for _, l := range li.loops {
			c := classifyLoop(w, f, l, li)
			counts[c]++
			if c == "undecided" {
				undec = append(undec, fmt.Sprintf("loop %d at %s", l.ordinal, w.pos(l.head.Instrs[0].Pos())))
			}
		}
		f, undec, counts := f, undec, counts
		key := w.fnKey(f)
		vcs = append(vcs, VC{Name: key + ".termination", Prop: "C06", Kind: "term", Fn: key, Pos: w.pos(f.Pos()),
			Clause: fmt.Sprintf("every loop is a range loop (%d), a counted loop with a fixed bound (%d) or has a proved variant (%d)", counts["range"], counts["counted"], counts["variant"]),
			Run: func() SolveResult {
				if li.irreducible {
					return SolveResult{Status: "unknown", Solver: "govc-loopshape", Output: "irreducible control flow"}
				}
				if len(undec) == 0 {
					return SolveResult{Status: "unsat", Solver: "govc-loopshape"}
				}
				return SolveResult{Status: "unknown", Solver: "govc-loopshape", Output: "no termination argument for " + strings.Join(undec, ", ")}
			}})
	}
	return vcs
}

func hasMeasure(w *World, f *ssa.Function) bool {
	if ct := w.contractOf(f); ct != nil {
		for _, cl := range ct.clauses {
			if cl.kind == "decreases" {
				return true
			}
		}
	}
	return false
}

package main

import (
	"strings"
	"time"

	"golang.org/x/tools/go/ssa"
)

// C14 bounded API obligation: the real alpine NewVersion+Compare against the apk-tools ordering of the property,
// computed in the harness on a grid of well-formed versions (equal arity, no leading zeros).
const apkTestTmpl = `package alpine

import (
	"fmt"
	"testing"
)

type verifApk struct {
	nums  []int
	letter string
	suf   [][2]interface{} // name, number
	rev   int
	text  string
}

func TestVerifReplay(t *testing.T) {
	rank := map[string]int{"alpha": 0, "beta": 1, "pre": 2, "rc": 3, "": 4, "cvs": 5, "svn": 6, "git": 7, "hg": 8, "p": 9}
	type suf struct{ name string; num int }
	sufs := []suf{{"alpha", 1}, {"beta", 0}, {"pre", 2}, {"rc", 1}, {"cvs", 0}, {"svn", 0}, {"git", 0}, {"hg", 0}, {"p", 1}, {"p", 2}}
	type ver struct {
		nums []int
		letter string
		sufs []suf
		rev int
		text string
	}
	var pool []ver
	numsets := [][]int{{1, 0}, {1, 1}, {1, 2}, {1, 9}, {1, 10}, {2, 0}, {0, 9}, {10, 0}}
	e := &Ecosystem{}
	for _, ns := range numsets {
		for _, letter := range []string{"", "a", "b"} {
			for s1 := -1; s1 < len(sufs); s1++ {
				for s2 := -1; s2 < len(sufs); s2 += 3 {
					if s1 < 0 && s2 >= 0 {
						continue
					}
					for _, rev := range []int{-1, 0, 1} {
						v := ver{nums: ns, letter: letter, rev: rev}
						text := fmt.Sprintf("%d.%d%s", ns[0], ns[1], letter)
						for _, si := range []int{s1, s2} {
							if si >= 0 {
								v.sufs = append(v.sufs, sufs[si])
								text += "_" + sufs[si].name
								if sufs[si].num > 0 {
									text += fmt.Sprint(sufs[si].num)
								}
							}
						}
						if rev >= 0 {
							text += fmt.Sprintf("-r%d", rev)
						}
						v.text = text
						pool = append(pool, v)
					}
				}
			}
		}
	}
	if len(pool) > 900 {
		step := len(pool)/900 + 1
		var nx []ver
		for i := 0; i < len(pool); i += step {
			nx = append(nx, pool[i])
		}
		pool = nx
	}
	// suffix numbers far beyond the small ones above (date stamps, powers of two): the suffix name still decides first
	for _, name := range []string{"alpha", "beta", "pre", "rc", "cvs", "svn", "git", "hg", "p"} {
		for _, num := range []int{255, 20060810, 16777216, 4294967297, 1000000000000} {
			for _, second := range []int{-1, 3} {
				v := ver{nums: []int{1, 0}, rev: -1, sufs: []suf{{name, num}}}
				text := fmt.Sprintf("1.0_%s%d", name, num)
				if second >= 0 {
					v.sufs = append([]suf{sufs[second]}, v.sufs...)
					text = fmt.Sprintf("1.0_%s%d_%s%d", sufs[second].name, sufs[second].num, name, num)
				}
				v.text = text
				pool = append(pool, v)
			}
		}
	}
	sgn := func(x int) int { if x < 0 { return -1 }; if x > 0 { return 1 }; return 0 }
	cmpSuf := func(a, b suf) int {
		if rank[a.name] != rank[b.name] {
			return sgn(rank[a.name] - rank[b.name])
		}
		return sgn(a.num - b.num)
	}
	spec := func(a, b ver) int {
		for i := range a.nums {
			if a.nums[i] != b.nums[i] {
				return sgn(a.nums[i] - b.nums[i])
			}
		}
		if a.letter != b.letter {
			if a.letter < b.letter {
				return -1
			}
			return 1
		}
		for i := 0; i < len(a.sufs) || i < len(b.sufs); i++ {
			x, y := suf{}, suf{}
			if i < len(a.sufs) {
				x = a.sufs[i]
			}
			if i < len(b.sufs) {
				y = b.sufs[i]
			}
			if c := cmpSuf(x, y); c != 0 {
				return c
			}
		}
		ra, rb := a.rev, b.rev
		if ra < 0 {
			ra = 0
		}
		if rb < 0 {
			rb = 0
		}
		return sgn(ra - rb)
	}
	parsed := make([]*Version, len(pool))
	for i, p := range pool {
		v, err := e.NewVersion(p.text)
		if err != nil {
			fmt.Printf("VERIF-CX well-formed version %q rejected: %v\n", p.text, err)
			return
		}
		parsed[i] = v
	}
	n := 0
	for i := range pool {
		for j := range pool {
			n++
			if got, want := sgn(parsed[i].Compare(parsed[j])), spec(pool[i], pool[j]); got != want {
				fmt.Printf("VERIF-CX Compare(%q, %q) = %d, apk-tools ordering says %d\n", pool[i].text, pool[j].text, got, want)
				return
			}
		}
	}
	fmt.Printf("VERIF-OK evals=%d pool=%d\n", n, len(pool))
}
`

func apkFalsifier(w *World, fn *ssa.Function, r vcResult) *Counterexample {
	pkg := w.byShort["alpine"]
	if pkg == nil {
		return nil
	}
	out, _ := runOverlayTest(w, pkg, apkTestTmpl, 180*time.Second)
	cx := &Counterexample{How: "real alpine NewVersion+Compare on a grid of well-formed versions against the apk-tools ordering of the property", Output: truncate(lastLines(out, 6), 1500)}
	for _, ln := range strings.Split(out, "\n") {
		if strings.HasPrefix(ln, "VERIF-CX ") {
			cx.Confirmed = true
			cx.Observed = strings.TrimPrefix(ln, "VERIF-CX ")
			return cx
		}
	}
	cx.Observed = "no difference observed"
	return cx
}

func (w *World) apkBoundedVC() []VC {
	fn := w.funcs["alpine.(*Version).Compare"]
	if fn == nil {
		return nil
	}
	return []VC{{Name: "alpine.(*Version).Compare.apk-order.bounded", Prop: "C14", Kind: "bounded.api", Fn: "alpine.(*Version).Compare", Pos: w.pos(fn.Pos()),
		Clause:  "Compare(NewVersion(x), NewVersion(y)) has the sign of the apk-tools ordering on well-formed versions",
		Bounded: "grid: 8 two-component numeric tuples x letter {none,a,b} x 0-2 suffixes from the nine known names x revision {none,r0,r1} (about 900 versions, all pairs), plus 90 versions whose suffix numbers are date stamps and powers of two up to 10^12",
		Run: func() SolveResult {
			start := time.Now()
			cx := apkFalsifier(w, fn, vcResult{})
			res := SolveResult{Solver: "enumeration(go test -overlay)", Seconds: time.Since(start).Seconds(), cx: cx}
			switch {
			case cx == nil:
				res.Status = "error"
			case cx.Confirmed:
				res.Status, res.Output = "sat", cx.Observed
			case strings.Contains(cx.Output, "VERIF-OK"):
				res.Status, res.Output = "unsat", lastLines(cx.Output, 1)
			default:
				res.Status, res.Output = "error", cx.Output
			}
			return res
		}}}
}

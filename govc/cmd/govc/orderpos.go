package main

// C20 bounded API obligations, per ecosystem: membership depends only on the order position.
//   equal  - two versions that compare equal (different spellings: extra ".0", leading zeros, v prefix, build metadata)
//            are treated alike by every range of the pool (comparators, the ecosystem's shorthand operators, AND pairs,
//            wildcards, brackets, || unions);
//   convex - a range without "!=", "||" or a negated wildcard that contains a and d contains every b with a <= b <= d.
// The pool is fixed (no harvesting), ranges and versions the ecosystem rejects are skipped.

import (
	"fmt"
	"strings"
	"sync"
	"time"

	"golang.org/x/tools/go/ssa"
)

const orderPosTmpl = `package PKG

import (
	"fmt"
	"strings"
	"testing"
)

func TestVerifReplay(t *testing.T) {
	e := &Ecosystem{}
	prefix := PREFIX
	bases := []string{"1.0.0", "1.2.0", "1.2.3", "2.0.0", "0.9.0", "1.10.0", "1.0", "1.2", "0.0.3", "1.2.4", "1.3.0", "1", "2"}
	if THOROUGH {
		bases = append(bases, "0.0.0", "0.1.0", "0.0.4", "0", "3", "1.9.9", "2.0.1", "10.0.0", "1.2.10", "3.0.0")
	}
	var vtexts []string
	for _, b := range bases {
		vtexts = append(vtexts, prefix+b, prefix+b+".0", prefix+"0"+b, prefix+b+"+b1", prefix+b+"+b2", "v"+b, prefix+b+"-alpha", prefix+b+"-rc.1", prefix+b+"_rc1", prefix+b+"~rc1", prefix+b+"rc1", prefix+b+".post1", prefix+b+"-1", prefix+b+"-r1",
			// letter case, alias qualifiers and separator variants
			prefix+b+"-ALPHA", prefix+b+"-Alpha", prefix+b+"-RC.1", prefix+b+"-rc1", prefix+b+"-RC1", prefix+b+"-cr1", prefix+b+"-rc-1", prefix+b+"-ga", prefix+b+"-final", prefix+b+".RELEASE", prefix+b+"-a1", prefix+b+"-alpha-1", prefix+b+"_alpha", prefix+b+"a1", prefix+b+".dev1", prefix+b+"-SNAPSHOT", prefix+b+"-snapshot")
		if i := strings.Index(b, "."); i > 0 {
			vtexts = append(vtexts, prefix+b[:i+1]+"0"+b[i+1:]) // leading zero on the second component
		}
	}
	type pv struct {
		text string
		v    *Version
	}
	var vs []pv
	seen := map[string]bool{}
	for _, s := range vtexts {
		if seen[s] {
			continue
		}
		seen[s] = true
		if v, err := e.NewVersion(s); err == nil {
			vs = append(vs, pv{s, v})
		}
	}
	var rtexts []string
	rb := []string{prefix + "1.2.0", prefix + "1.0", prefix + "0.0.3", prefix + "2.0.0", prefix + "1.2"}
	for _, b := range rb {
		for _, op := range []string{"", "=", "==", "!=", "<", "<=", ">", ">=", "^", "~", "~>", "~> ", "~=", "<<", ">>"} {
			rtexts = append(rtexts, op+b)
		}
		rtexts = append(rtexts, "["+b+"]", "["+b+",)", "(,"+b+"]", "("+b+","+prefix+"3.0.0)", "["+b+","+prefix+"3.0.0]")
	}
	for _, sep := range []string{",", " ", ", ", " and "} {
		rtexts = append(rtexts, ">="+prefix+"1.0.0"+sep+"<"+prefix+"2.0.0", ">"+prefix+"1.2.0"+sep+"<="+prefix+"1.10.0", ">="+prefix+"1.0"+sep+"!="+prefix+"1.2.3")
	}
	rtexts = append(rtexts, "1.*", "1.x", "1.2.*", "1.2.x", "*", "==1.*", "==1.2.*", "!=1.2.*", ">=1.0.0 <1.2.0 || >=2.0.0", "^1.2.0 || ^2.0.0", "<1.0.0||>=1.2.3", "1.0.0 - 1.2.3", "1.0 - 2.0")
	type pr struct {
		text   string
		r      *VersionRange
		convex bool
		class  string
	}
	classOf := func(s string) string {
		switch {
		case strings.HasPrefix(s, "^") || strings.HasPrefix(s, "~"):
			return "shorthand"
		case strings.ContainsAny(s, "*xX[(|") || strings.Contains(s, " - "):
			return "other"
		}
		return "comparators"
	}
	var rs []pr
	for _, s := range rtexts {
		if r, err := e.NewVersionRange(s); err == nil {
			rs = append(rs, pr{s, r, !strings.Contains(s, "!=") && !strings.Contains(s, "||"), classOf(s)})
		}
	}
	nEq, nCx := map[string]int{}, map[string]int{}
	badEq, badCx := map[string]string{}, map[string]string{}
	for i, a := range vs {
		for j, b := range vs {
			if i >= j || a.v.Compare(b.v) != 0 || b.v.Compare(a.v) != 0 {
				continue
			}
			for _, r := range rs {
				nEq[r.class]++
				if r.r.Contains(a.v) != r.r.Contains(b.v) && badEq[r.class] == "" {
					badEq[r.class] = fmt.Sprintf("%q and %q compare equal but range %q contains them %v / %v", a.text, b.text, r.text, r.r.Contains(a.v), r.r.Contains(b.v))
				}
			}
		}
	}
	for _, r := range rs {
		if !r.convex {
			continue
		}
		var in []pv
		for _, v := range vs {
			if r.r.Contains(v.v) {
				in = append(in, v)
			}
		}
		if len(in) > 12 { // an evenly spread sample of the accepted versions as end points
			step := (len(in) + 11) / 12
			var sm []pv
			for k := 0; k < len(in); k += step {
				sm = append(sm, in[k])
			}
			in = append(sm, in[len(in)-1])
		}
		for _, a := range in {
			for _, d := range in {
				if a.v.Compare(d.v) > 0 {
					continue
				}
				for _, b := range vs {
					nCx[r.class]++
					if a.v.Compare(b.v) <= 0 && b.v.Compare(d.v) <= 0 && !r.r.Contains(b.v) && badCx[r.class] == "" {
						badCx[r.class] = fmt.Sprintf("range %q contains %q and %q but not %q which lies between them", r.text, a.text, d.text, b.text)
					}
				}
			}
		}
	}
	for _, c := range []string{"comparators", "shorthand", "other"} {
		if badEq[c] != "" {
			fmt.Printf("VERIF-C20\tequal/%s\tFAIL\t%s\n", c, badEq[c])
		} else {
			fmt.Printf("VERIF-C20\tequal/%s\tok\tevals=%d versions=%d ranges=%d\n", c, nEq[c], len(vs), len(rs))
		}
		if badCx[c] != "" {
			fmt.Printf("VERIF-C20\tconvex/%s\tFAIL\t%s\n", c, badCx[c])
		} else {
			fmt.Printf("VERIF-C20\tconvex/%s\tok\tevals=%d\n", c, nCx[c])
		}
	}
	fmt.Println("VERIF-DONE")
}
`

type orderPosResult struct {
	status map[string][2]string
	out    string
	secs   float64
	done   bool
}

var (
	orderPosMu    sync.Mutex
	orderPosCache = map[string]*orderPosResult{}
)

func runOrderPos(w *World, eco string) *orderPosResult {
	orderPosMu.Lock()
	defer orderPosMu.Unlock()
	if r, ok := orderPosCache[eco]; ok {
		return r
	}
	res := &orderPosResult{status: map[string][2]string{}}
	orderPosCache[eco] = res
	pkg := w.byShort[eco]
	if pkg == nil {
		return res
	}
	prefix := ""
	if eco == "golang" {
		prefix = "v"
	}
	src := strings.ReplaceAll(orderPosTmpl, "package PKG", "package "+eco)
	src = strings.Replace(src, "PREFIX", fmt.Sprintf("%q", prefix), 1)
	src = strings.Replace(src, "THOROUGH", fmt.Sprint(harnessThorough), 1)
	start := time.Now()
	out, _ := runOverlayTest(w, pkg, src, 300*time.Second)
	res.secs, res.out = time.Since(start).Seconds(), out
	for _, ln := range strings.Split(out, "\n") {
		if strings.HasPrefix(ln, "VERIF-DONE") {
			res.done = true
		}
		f := strings.Split(ln, "\t")
		if len(f) >= 4 && f[0] == "VERIF-C20" {
			res.status[f[1]] = [2]string{f[2], f[3]}
		}
	}
	return res
}

func (w *World) orderPosVCs() []VC {
	var vcs []VC
	for _, eco := range sortEcosystems {
		eco := eco
		fn := w.funcs[eco+".(*VersionRange).Contains"]
		if fn == nil {
			continue
		}
		for _, k := range []string{"equal/comparators", "equal/shorthand", "equal/other", "convex/comparators", "convex/shorthand", "convex/other"} {
			k := k
			clause := map[string]string{
				"equal":  "two versions that compare equal are treated alike by every range",
				"convex": "a range without !=, || or a negated wildcard that contains a and d contains every b with a <= b <= d",
			}[k[:strings.Index(k, "/")]] + " (range family: " + k[strings.Index(k, "/")+1:] + ")"
			vcs = append(vcs, VC{Name: eco + ".(*VersionRange).Contains.c20[" + k + "].bounded", Prop: "C20", Kind: "bounded.api", Fn: eco + ".(*VersionRange).Contains", Pos: w.pos(fn.Pos()), Clause: eco + ": " + clause,
				Bounded: "13 base versions (one to three components) x 32 spellings (extra .0, leading zeros, v prefix, build metadata, pre-/post-release markers, letter case, alias qualifiers, separator variants) x about 100 range texts (comparators, shorthand operators, AND pairs, wildcards, brackets, unions); those the ecosystem accepts",
				Run: func() SolveResult {
					r := runOrderPos(w, eco)
					res := SolveResult{Solver: "enumeration(go test -overlay)", Seconds: r.secs / 6}
					st, ok := r.status[k]
					switch {
					case !r.done || !ok:
						res.Status, res.Output = "error", "harness did not complete: "+truncate(lastLines(r.out, 6), 600)
					case st[0] == "ok":
						res.Status, res.Output = "unsat", st[1]
					default:
						res.Status, res.Output = "sat", st[1]
						res.cx = &Counterexample{Confirmed: true, Observed: st[1], How: "real " + eco + " NewVersion / NewVersionRange / Compare / Contains on a fixed pool of spellings and ranges", Output: st[1]}
					}
					return res
				}})
		}
	}
	return vcs
}

// orderPosFalsifier is the replay of a failed C20 obligation: the first difference the fixed-pool harness finds for the
// ecosystem of the failed function (findings recorded for that ecosystem's obligations are skipped).
func orderPosFalsifier(w *World, fn *ssa.Function, r vcResult) *Counterexample {
	eco := strings.SplitN(r.vc.Fn, ".", 2)[0]
	if fn != nil && fn.Pkg != nil {
		eco = fn.Pkg.Pkg.Name()
	}
	res := runOrderPos(w, eco)
	cx := &Counterexample{How: "real " + eco + " API on a fixed pool: Compare-equal spellings must agree on every range; ranges without != and || must be convex", Output: truncate(lastLines(res.out, 8), 1500), Observed: "no difference observed"}
	known := map[string]bool{}
	for _, f := range loadFindings() {
		known[f.Obligation] = true
	}
	for _, k := range []string{"equal/comparators", "equal/shorthand", "equal/other", "convex/comparators", "convex/shorthand", "convex/other"} {
		if st := res.status[k]; st[0] == "FAIL" && !known[eco+".(*VersionRange).Contains.c20["+k+"].bounded"] {
			cx.Confirmed, cx.Observed = true, k+": "+st[1]
			break
		}
	}
	return cx
}

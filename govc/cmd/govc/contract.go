package main

// Contract language: Gobra-style structured comments kept in comment-only
// files (verif_contracts.go, build tag verif) inside /repo packages.
//
//	//@ func (*Version).Compare
//	//@   requires v != nil && other != nil
//	//@   ensures  result == 0 ==> v.major == other.major        [C01]
//	//@   comparator v ~ other                                    [C01]
//	//@   loop 1 invariant 0 <= i
//	//@ spec sign(x int) int = x < 0 ? -1 : (x > 0 ? 1 : 0)
//	//@ lemma name [C04]: forall a, b *Version :: ...
//
// A clause may continue on following lines that start with `//@     |`.

import (
	"fmt"
	"strconv"
	"strings"
	"unicode"
)

type Clause struct {
	kind string // requires, ensures, comparator, assume
	expr *Expr
	tags []string
	name string // optional label: ensures name: expr (for a loop invariant the label names its group)
	using []string // ensures: the invariant groups this clause needs (`[tags] using a,b`); invariants: groups needed besides its own
	src  string
	line int
	ord  int // 1-based ordinal among the ensures clauses of the contract
	// comparator
	left, right []string
	where       *Expr
}

type loopSpec struct {
	invariant []*Clause
	decreases []*Clause // termination: an integer expression that is >= 0 at the head and smaller after every iteration
	unroll    int
}

type Contract struct {
	key      string // function key within the package
	pkg      string
	clauses  []*Clause
	loops    map[int]*loopSpec
	trusted  bool
	file     string
	line     int
	nofresh  bool
	nullable []string
	boundAlpha string
	boundLen   int
}

type SpecFunc struct {
	name   string
	params []specParam
	ret    string
	body   *Expr
	pkg    string
	rec    bool
}

type specParam struct{ name, typ string }

type Lemma struct {
	name string
	tags []string
	expr *Expr
	pkg  string
	src  string
	uses []string
}

type ContractFile struct {
	pkg       string
	contracts []*Contract
	specs     []*SpecFunc
	lemmas    []*Lemma
}

func (c *Contract) hasTag(cl *Clause, tag string) bool {
	if tag == "" {
		return true
	}
	for _, t := range cl.tags {
		if t == tag {
			return true
		}
	}
	return false
}

// ---------------------------------------------------------------- expressions

type Expr struct {
	op   string // ident, int, str, char, bool, nil, call, field, index, slice, unary, binary, cond, forall, exists, old
	name string
	args []*Expr
	vars []specParam // quantifier variables
	ival string
	sval string
}

type lexer struct {
	s   string
	pos int
	tok string
	kind string // id, int, str, char, op, eof
}

func (l *lexer) next() {
	for l.pos < len(l.s) && (l.s[l.pos] == ' ' || l.s[l.pos] == '\t' || l.s[l.pos] == '\n') {
		l.pos++
	}
	if l.pos >= len(l.s) {
		l.tok, l.kind = "", "eof"
		return
	}
	c := l.s[l.pos]
	start := l.pos
	switch {
	case unicode.IsLetter(rune(c)) || c == '_':
		for l.pos < len(l.s) && (unicode.IsLetter(rune(l.s[l.pos])) || unicode.IsDigit(rune(l.s[l.pos])) || l.s[l.pos] == '_') {
			l.pos++
		}
		// name#k: the k-th definition of a local that is assigned several times
		if l.pos+1 < len(l.s) && l.s[l.pos] == '#' && unicode.IsDigit(rune(l.s[l.pos+1])) {
			l.pos++
			for l.pos < len(l.s) && unicode.IsDigit(rune(l.s[l.pos])) {
				l.pos++
			}
		}
		l.tok, l.kind = l.s[start:l.pos], "id"
	case unicode.IsDigit(rune(c)):
		for l.pos < len(l.s) && unicode.IsDigit(rune(l.s[l.pos])) {
			l.pos++
		}
		l.tok, l.kind = l.s[start:l.pos], "int"
	case c == '"':
		l.pos++
		for l.pos < len(l.s) && l.s[l.pos] != '"' {
			if l.s[l.pos] == '\\' {
				l.pos++
			}
			l.pos++
		}
		l.pos++
		u, err := strconv.Unquote(l.s[start:l.pos])
		if err != nil {
			u = l.s[start+1 : l.pos-1]
		}
		l.tok, l.kind = u, "str"
	case c == '\'':
		l.pos++
		for l.pos < len(l.s) && l.s[l.pos] != '\'' {
			if l.s[l.pos] == '\\' {
				l.pos++
			}
			l.pos++
		}
		l.pos++
		r, _, _, err := strconv.UnquoteChar(l.s[start+1:l.pos-1], '\'')
		if err != nil {
			r = rune(l.s[start+1])
		}
		l.tok, l.kind = strconv.Itoa(int(r)), "int"
	default:
		for _, op := range []string{"<==>", "==>", "::", "==", "!=", "<=", ">=", "&&", "||", "<", ">", "+", "-", "*", "!", "(", ")", "[", "]", ",", ".", "?", ":", "~", "/", "%"} {
			if strings.HasPrefix(l.s[l.pos:], op) {
				l.pos += len(op)
				l.tok, l.kind = op, "op"
				return
			}
		}
		l.tok, l.kind = string(c), "op"
		l.pos++
	}
}

type parser struct {
	l   *lexer
	err string
}

func parseExpr(s string) (*Expr, error) {
	p := &parser{l: &lexer{s: s}}
	p.l.next()
	e := p.expr(0)
	if p.err == "" && p.l.kind != "eof" {
		p.err = "unexpected token " + p.l.tok
	}
	if p.err != "" {
		return nil, fmt.Errorf("%s in %q", p.err, s)
	}
	return e, nil
}

var binPrec = map[string]int{
	"<==>": 1, "==>": 2, "?": 3, "||": 4, "&&": 5,
	"==": 6, "!=": 6, "<": 6, "<=": 6, ">": 6, ">=": 6,
	"+": 7, "-": 7, "*": 8, "/": 8, "%": 8,
}

func (p *parser) expect(tok string) {
	if p.l.tok != tok || p.l.kind == "str" {
		if p.err == "" {
			p.err = fmt.Sprintf("expected %q, got %q", tok, p.l.tok)
		}
		return
	}
	p.l.next()
}

func (p *parser) expr(minPrec int) *Expr {
	lhs := p.unary()
	for p.err == "" && p.l.kind == "op" {
		op := p.l.tok
		prec, ok := binPrec[op]
		if !ok || prec < minPrec {
			break
		}
		p.l.next()
		if op == "?" {
			a := p.expr(0)
			p.expect(":")
			b := p.expr(prec)
			lhs = &Expr{op: "cond", args: []*Expr{lhs, a, b}}
			continue
		}
		var rhs *Expr
		if op == "==>" || op == "<==>" {
			rhs = p.expr(prec) // right assoc
		} else {
			rhs = p.expr(prec + 1)
		}
		lhs = &Expr{op: "binary", name: op, args: []*Expr{lhs, rhs}}
	}
	return lhs
}

func (p *parser) unary() *Expr {
	if p.l.kind == "op" && (p.l.tok == "!" || p.l.tok == "-") {
		op := p.l.tok
		p.l.next()
		return &Expr{op: "unary", name: op, args: []*Expr{p.unary()}}
	}
	return p.postfix(p.atom())
}

func (p *parser) typeName() string {
	// [] * ident . ident
	var b strings.Builder
	for p.l.kind == "op" && (p.l.tok == "[" || p.l.tok == "*") {
		if p.l.tok == "[" {
			p.l.next()
			p.expect("]")
			b.WriteString("[]")
		} else {
			p.l.next()
			b.WriteString("*")
		}
	}
	if p.l.kind != "id" {
		p.err = "type expected"
		return ""
	}
	b.WriteString(p.l.tok)
	p.l.next()
	if p.l.kind == "op" && p.l.tok == "." {
		p.l.next()
		b.WriteString("." + p.l.tok)
		p.l.next()
	}
	return b.String()
}

func (p *parser) atom() *Expr {
	switch p.l.kind {
	case "int":
		e := &Expr{op: "int", ival: p.l.tok}
		p.l.next()
		return e
	case "str":
		e := &Expr{op: "str", sval: p.l.tok}
		p.l.next()
		return e
	case "id":
		name := p.l.tok
		p.l.next()
		switch name {
		case "true", "false":
			return &Expr{op: "bool", name: name}
		case "nil":
			return &Expr{op: "nil"}
		case "forall", "exists":
			var vars []specParam
			for {
				var names []string
				names = append(names, p.l.tok)
				p.l.next()
				for p.l.tok == "," && p.l.kind == "op" {
					p.l.next()
					names = append(names, p.l.tok)
					p.l.next()
				}
				t := p.typeName()
				for _, n := range names {
					vars = append(vars, specParam{n, t})
				}
				if p.l.tok == "," && p.l.kind == "op" {
					p.l.next()
					continue
				}
				break
			}
			p.expect("::")
			body := p.expr(0)
			return &Expr{op: name, vars: vars, args: []*Expr{body}}
		}
		return &Expr{op: "ident", name: name}
	case "op":
		if p.l.tok == "(" {
			p.l.next()
			e := p.expr(0)
			p.expect(")")
			return e
		}
	}
	if p.err == "" {
		p.err = "unexpected " + p.l.tok
	}
	return &Expr{op: "bool", name: "true"}
}

func (p *parser) postfix(e *Expr) *Expr {
	for p.err == "" && p.l.kind == "op" {
		switch p.l.tok {
		case ".":
			p.l.next()
			name := p.l.tok
			p.l.next()
			e = &Expr{op: "field", name: name, args: []*Expr{e}}
		case "[":
			p.l.next()
			var lo, hi *Expr
			if !(p.l.kind == "op" && p.l.tok == ":") {
				lo = p.expr(0)
			}
			if p.l.kind == "op" && p.l.tok == ":" {
				p.l.next()
				if !(p.l.kind == "op" && p.l.tok == "]") {
					hi = p.expr(0)
				}
				p.expect("]")
				e = &Expr{op: "slice", args: []*Expr{e, lo, hi}}
			} else {
				p.expect("]")
				e = &Expr{op: "index", args: []*Expr{e, lo}}
			}
		case "(":
			p.l.next()
			var args []*Expr
			for !(p.l.kind == "op" && p.l.tok == ")") && p.err == "" {
				args = append(args, p.expr(0))
				if p.l.kind == "op" && p.l.tok == "," {
					p.l.next()
				} else {
					break
				}
			}
			p.expect(")")
			e = &Expr{op: "call", args: append([]*Expr{e}, args...)}
		default:
			return e
		}
	}
	return e
}

// ---------------------------------------------------------------- file parser

// splitUsing strips a trailing `using a,b` (the loop-invariant groups a clause depends on).
func splitUsing(s string) (string, []string) {
	t := strings.TrimSpace(s)
	if j := strings.Index(t, " //"); j >= 0 {
		t = strings.TrimSpace(t[:j])
	}
	i := strings.LastIndex(t, " using ")
	if i < 0 {
		return s, nil
	}
	names := strings.TrimSpace(t[i+7:])
	if names == "" || strings.ContainsAny(names, " ()[]=<>&|!") {
		return s, nil
	}
	return strings.TrimSpace(t[:i]), strings.Split(names, ",")
}

func splitTags(s string) (string, []string) {
	s = strings.TrimSpace(s)
	// strip trailing // comment
	if i := strings.Index(s, " //"); i >= 0 {
		s = strings.TrimSpace(s[:i])
	}
	if strings.HasSuffix(s, "]") {
		if i := strings.LastIndex(s, "["); i >= 0 {
			inner := s[i+1 : len(s)-1]
			ok := inner != ""
			for _, f := range strings.Fields(strings.ReplaceAll(inner, ",", " ")) {
				if len(f) < 2 || f[0] != 'C' {
					ok = false
				}
			}
			if ok {
				return strings.TrimSpace(s[:i]), strings.Fields(strings.ReplaceAll(inner, ",", " "))
			}
		}
	}
	return s, nil
}

func parseContractFile(pkg, path, src string) (*ContractFile, error) {
	cf := &ContractFile{pkg: pkg}
	var lines []string
	var lineNos []int
	for i, ln := range strings.Split(src, "\n") {
		t := strings.TrimSpace(ln)
		if !strings.HasPrefix(t, "//@") {
			continue
		}
		body := strings.TrimPrefix(t, "//@")
		if strings.HasPrefix(strings.TrimSpace(body), "|") && len(lines) > 0 {
			lines[len(lines)-1] += " " + strings.TrimPrefix(strings.TrimSpace(body), "|")
			continue
		}
		lines = append(lines, body)
		lineNos = append(lineNos, i+1)
	}
	var cur *Contract
	for i, ln := range lines {
		t := strings.TrimSpace(ln)
		if t == "" {
			continue
		}
		fail := func(err error) error { return fmt.Errorf("%s:%d: %v", path, lineNos[i], err) }
		word := t
		rest := ""
		if j := strings.IndexAny(t, " \t"); j >= 0 {
			word, rest = t[:j], strings.TrimSpace(t[j:])
		}
		switch word {
		case "func":
			key := rest
			if j := strings.Index(key, " //"); j >= 0 {
				key = strings.TrimSpace(key[:j])
			}
			cur = &Contract{key: key, pkg: pkg, loops: map[int]*loopSpec{}, file: path, line: lineNos[i]}
			cf.contracts = append(cf.contracts, cur)
		case "requires", "ensures", "assume":
			if cur == nil {
				return nil, fail(fmt.Errorf("clause outside func"))
			}
			rest, using := splitUsing(rest)
			body, tags := splitTags(rest)
			name := ""
			// optional label `name: expr` (label is an identifier possibly with - / digits)
			if j := strings.Index(body, ": "); j > 0 && isLabel(body[:j]) {
				name, body = body[:j], strings.TrimSpace(body[j+2:])
			}
			ex, err := parseExpr(body)
			if err != nil {
				return nil, fail(err)
			}
			ncl := &Clause{kind: word, expr: ex, tags: tags, name: name, src: body, line: lineNos[i], using: using}
			if word == "ensures" {
				for _, c := range cur.clauses {
					if c.kind == "ensures" {
						ncl.ord++
					}
				}
				ncl.ord++
			}
			cur.clauses = append(cur.clauses, ncl)
		case "decreases":
			// measure of a self-recursive function: non-negative, and smaller for the arguments of every recursive call
			if cur == nil {
				return nil, fail(fmt.Errorf("clause outside func"))
			}
			body := rest
			if j := strings.Index(body, " //"); j >= 0 {
				body = strings.TrimSpace(body[:j])
			}
			ex, err := parseExpr(body)
			if err != nil {
				return nil, fail(err)
			}
			cur.clauses = append(cur.clauses, &Clause{kind: "decreases", expr: ex, src: body, line: lineNos[i]})
		case "comparator":
			if cur == nil {
				return nil, fail(fmt.Errorf("clause outside func"))
			}
			body, tags := splitTags(rest)
			var where *Expr
			if j := strings.Index(body, " where "); j >= 0 {
				ex, err := parseExpr(body[j+7:])
				if err != nil {
					return nil, fail(err)
				}
				where = ex
				body = body[:j]
			}
			parts := strings.Split(body, "~")
			if len(parts) != 2 {
				return nil, fail(fmt.Errorf("comparator needs X ~ Y"))
			}
			cl := &Clause{kind: "comparator", tags: tags, src: body, where: where, line: lineNos[i]}
			for _, f := range strings.Split(strings.Trim(strings.TrimSpace(parts[0]), "()"), ",") {
				cl.left = append(cl.left, strings.TrimSpace(f))
			}
			for _, f := range strings.Split(strings.Trim(strings.TrimSpace(parts[1]), "()"), ",") {
				cl.right = append(cl.right, strings.TrimSpace(f))
			}
			cur.clauses = append(cur.clauses, cl)
		case "loop":
			if cur == nil {
				return nil, fail(fmt.Errorf("clause outside func"))
			}
			f := strings.Fields(rest)
			if len(f) < 3 {
				return nil, fail(fmt.Errorf("loop N invariant|unroll ..."))
			}
			n, err := strconv.Atoi(f[0])
			if err != nil {
				return nil, fail(err)
			}
			ls := cur.loops[n]
			if ls == nil {
				ls = &loopSpec{}
				cur.loops[n] = ls
			}
			switch f[1] {
			case "unroll":
				ls.unroll, _ = strconv.Atoi(f[2])
			case "decreases":
				body := strings.TrimSpace(strings.TrimPrefix(strings.TrimSpace(strings.TrimPrefix(rest, f[0])), "decreases"))
				if j := strings.Index(body, " //"); j >= 0 {
					body = strings.TrimSpace(body[:j])
				}
				ex, err := parseExpr(body)
				if err != nil {
					return nil, fail(err)
				}
				ls.decreases = append(ls.decreases, &Clause{kind: "decreases", expr: ex, src: body, line: lineNos[i]})
			case "invariant":
				irest, using := splitUsing(strings.TrimSpace(strings.TrimPrefix(strings.TrimSpace(strings.TrimPrefix(rest, f[0])), "invariant")))
				body, tags := splitTags(irest)
				group := ""
				if j := strings.Index(body, ": "); j > 0 && isLabel(body[:j]) && !strings.ContainsAny(body[:j], " (") {
					group, body = body[:j], strings.TrimSpace(body[j+2:])
				}
				ex, err := parseExpr(body)
				if err != nil {
					return nil, fail(err)
				}
				ls.invariant = append(ls.invariant, &Clause{kind: "invariant", expr: ex, tags: tags, src: body, line: lineNos[i], name: group, using: using})
			}
		case "trusted":
			if cur != nil {
				cur.trusted = true
			}
		case "bounded":
			// bounded alphabet "…" maxlen N : clauses of this function are checked by exhaustive enumeration only
			if cur != nil {
				f := strings.Fields(rest)
				for k := 0; k+1 < len(f); k += 2 {
					switch f[k] {
					case "alphabet":
						if u, err := strconv.Unquote(f[k+1]); err == nil {
							cur.boundAlpha = u
						}
					case "maxlen":
						cur.boundLen, _ = strconv.Atoi(f[k+1])
					}
				}
			}
		case "nullable":
			if cur != nil {
				for _, f := range strings.Fields(strings.ReplaceAll(rest, ",", " ")) {
					cur.nullable = append(cur.nullable, f)
				}
			}
		case "spec":
			// spec name(a T, b T) T = expr
			eqi := strings.Index(rest, " = ")
			if eqi < 0 {
				return nil, fail(fmt.Errorf("spec needs ' = '"))
			}
			head, body := rest[:eqi], rest[eqi+3:]
			op := strings.Index(head, "(")
			cp := strings.LastIndex(head, ")")
			if op < 0 || cp < op {
				return nil, fail(fmt.Errorf("bad spec header"))
			}
			sf := &SpecFunc{name: strings.TrimSpace(strings.TrimPrefix(strings.TrimSpace(head[:op]), "func")), ret: strings.TrimSpace(head[cp+1:]), pkg: pkg}
			for _, prm := range strings.Split(head[op+1:cp], ",") {
				f := strings.Fields(prm)
				if len(f) == 2 {
					sf.params = append(sf.params, specParam{f[0], f[1]})
				} else if len(f) == 1 && f[0] != "" {
					sf.params = append(sf.params, specParam{f[0], ""})
				}
			}
			// fill in omitted types from the right (a, b int)
			for k := len(sf.params) - 2; k >= 0; k-- {
				if sf.params[k].typ == "" {
					sf.params[k].typ = sf.params[k+1].typ
				}
			}
			ex, err := parseExpr(body)
			if err != nil {
				return nil, fail(err)
			}
			sf.body = ex
			sf.rec = strings.Contains(body, sf.name+"(")
			cf.specs = append(cf.specs, sf)
			cur = nil
		case "lemma":
			ci := strings.Index(rest, ":")
			if ci < 0 {
				return nil, fail(fmt.Errorf("lemma name [tags]: expr"))
			}
			hd := rest[:ci]
			var uses []string
			if ui := strings.Index(hd, " uses "); ui >= 0 {
				uses = strings.Fields(strings.ReplaceAll(hd[ui+6:], ",", " "))
				hd = hd[:ui]
			}
			head, tags := splitTags(hd)
			ex, err := parseExpr(rest[ci+1:])
			if err != nil {
				return nil, fail(err)
			}
			cf.lemmas = append(cf.lemmas, &Lemma{name: head, tags: tags, expr: ex, pkg: pkg, src: rest[ci+1:], uses: uses})
			cur = nil
		default:
			return nil, fail(fmt.Errorf("unknown contract keyword %q", word))
		}
	}
	return cf, nil
}

func isLabel(s string) bool {
	if s == "" {
		return false
	}
	for _, r := range s {
		if !(unicode.IsLetter(r) || unicode.IsDigit(r) || r == '-' || r == '_' || r == '/' || r == '.' || r == '=' || r == '*' || r == '[' || r == ']' || r == '<' || r == '>' || r == '!' || r == '~' || r == '^') {
			return false
		}
	}
	return unicode.IsLetter(rune(s[0]))
}

package main

// C07 bounded API obligations: the real CLI (`run` with "<ecosystem> sort ...") on lists of valid versions of every
// ecosystem: output is the input multiset, adjacent outputs are non-decreasing under the ecosystem's Compare, the
// sequence of equivalence classes is the same for every permutation of the input, and an invalid input gives an error
// that names it and no partial result.  All permutations for lists up to length 6, seeded shuffles of a 64-element
// list beyond.

import (
	"fmt"
	"strings"
	"sync"
	"time"
)

const sortHarnessHead = `package main

import (
	"bytes"
	"fmt"
	"math/rand"
	gosort "sort"
	"strconv"
	"strings"
	"testing"

	"github.com/alowayed/go-univers/pkg/univers"
IMPORTS
)

var verifPool = []string{"1.0.0", "1.0", "1", "01.0.0", "v1.0.0", "1.0.0+build", "1.0.0-1", "2.0.0", "1.10.0", "1.2.0", "1.9.0", "0.9", "1.0.0-alpha", "1.0.0-Beta", "1.0.0-beta", "1.0.0-ALPHA", "1.0.0-rc1", "1.0.0-RC1", "1.0.0.rc1", "1.0a", "1.0.0_p1", "1.0.0-r1", "1:1.0", "v1.2.3", "1.2.3", "10.0", "1.0.0.0", "3",
	"1.0.0-alpha.1", "1.0.0-alpha.1.0", "1.0.0-rc.2", "1.0.0-rc.2.5", "1.0.0-alpha.beta", "1.0.0-a.b.c", "1.0.0-0", "1.0.0~rc1", "1.0.0_rc1", "1.0.0.post1", "1.0.0.dev1", "1.0.0a1", "1.0.0-SNAPSHOT", "1.0.0-sp", "1.0.0^git1", "1.0.0+b1",
	// Go pseudo-versions of different forms around an ordinary pre-release tag (their SemVer spelling decides, not the time stamp)
	"v1.0.0-0.20230101000000-abcdefabcdef", "v1.0.0-beta", "v1.0.0-rc.0.20200101000000-abcdefabcdef", "v1.0.1-0.20210101000000-abcdefabcdef", "v0.0.0-20190101000000-abcdefabcdef"}

func verifUnquote(line string) ([]string, bool) {
	var out []string
	rest := strings.TrimSpace(line)
	for rest != "" {
		q, err := strconv.QuotedPrefix(rest)
		if err != nil {
			return nil, false
		}
		s, _ := strconv.Unquote(q)
		out = append(out, s)
		rest = strings.TrimSpace(rest[len(q):])
	}
	return out, true
}

func verifPerms(xs []string) [][]string {
	if len(xs) <= 1 {
		return [][]string{append([]string{}, xs...)}
	}
	var out [][]string
	for i := range xs {
		rest := append(append([]string{}, xs[:i]...), xs[i+1:]...)
		for _, p := range verifPerms(rest) {
			out = append(out, append([]string{xs[i]}, p...))
		}
	}
	return out
}

// verifSort checks one ecosystem; it returns "" or the first failure per clause
func verifSort[V univers.Version[V], VR univers.VersionRange[V]](name string, e univers.Ecosystem[V, VR], fails map[string]string, evals map[string]int) {
	var valid []string
	for _, s := range verifPool {
		if name == "alpm" && strings.Contains(s, "-") {
			// vercmp(8) defines a missing pkgrel as equal to any pkgrel, which no transitive order satisfies (the scoped
			// exclusion of C01); lists that mix versions with and without a pkgrel are therefore not claimed
			continue
		}
		if _, err := e.NewVersion(s); err == nil {
			valid = append(valid, s)
		}
	}
	if len(valid) == 0 {
		fails[name+"/pool"] = "no valid version in the pool"
		return
	}
	fail := func(clause, msg string) {
		if _, seen := fails[name+"/"+clause]; !seen {
			fails[name+"/"+clause] = msg
		}
	}
	count := func(clause string) { evals[name+"/"+clause]++ }
	cmp := func(a, b string) int {
		x, _ := e.NewVersion(a)
		y, _ := e.NewVersion(b)
		return x.Compare(y)
	}
	classes := func(out []string) string {
		var groups []string
		var cur []string
		for i, s := range out {
			if i > 0 && cmp(out[i-1], s) != 0 {
				gosort.Strings(cur)
				groups = append(groups, strings.Join(cur, ","))
				cur = nil
			}
			cur = append(cur, s)
		}
		gosort.Strings(cur)
		groups = append(groups, strings.Join(cur, ","))
		return strings.Join(groups, " < ")
	}
	runSort := func(in []string) ([]string, int, string) {
		var buf bytes.Buffer
		code := run(&buf, append([]string{name, "sort"}, in...))
		out, ok := verifUnquote(buf.String())
		if !ok {
			return nil, code, buf.String()
		}
		return out, code, buf.String()
	}
	checkList := func(base []string, perms [][]string) {
		ref := ""
		for _, in := range perms {
			out, code, raw := runSort(in)
			count("multiset")
			if code != 0 {
				fail("multiset", fmt.Sprintf("sort %q exits %d: %s", in, code, strings.TrimSpace(raw)))
				continue
			}
			a, b := append([]string{}, in...), append([]string{}, out...)
			gosort.Strings(a)
			gosort.Strings(b)
			if strings.Join(a, "\x00") != strings.Join(b, "\x00") {
				fail("multiset", fmt.Sprintf("sort %q printed %q: not the same strings", in, out))
				continue
			}
			count("ordered")
			for i := 1; i < len(out); i++ {
				if cmp(out[i-1], out[i]) > 0 {
					fail("ordered", fmt.Sprintf("sort %q printed %q: %q is above %q", in, out, out[i-1], out[i]))
				}
			}
			count("classes")
			c := classes(out)
			if ref == "" {
				ref = c
			} else if c != ref {
				fail("classes", fmt.Sprintf("sort %q gives the classes %s, another order of the same inputs gives %s", in, c, ref))
			}
		}
	}
	// all permutations of prefixes of the valid pool up to length 6 (duplicates included in the second family)
	for n := 1; n <= 6 && n <= len(valid); n++ {
		checkList(valid[:n], verifPerms(valid[:n]))
	}
	if len(valid) >= 3 {
		dup := []string{valid[0], valid[1], valid[0], valid[2], valid[1]}
		checkList(dup, verifPerms(dup))
		tail := valid[len(valid)-min(5, len(valid)):]
		checkList(tail, verifPerms(tail))
		// a window of five sliding over the whole pool, so that every neighbourhood of spellings meets in a short list
		for at := 0; at+WINDOW <= len(valid); at += 2 {
			checkList(valid[at:at+WINDOW], verifPerms(valid[at:at+WINDOW]))
		}
	}
	// sampled shuffles of a 64-element list
	rng := rand.New(rand.NewSource(SEED))
	long := make([]string, 64)
	for i := range long {
		long[i] = valid[i%len(valid)]
	}
	var shuffles [][]string
	for k := 0; k < SHUFFLES; k++ {
		p := append([]string{}, long...)
		rng.Shuffle(len(p), func(i, j int) { p[i], p[j] = p[j], p[i] })
		shuffles = append(shuffles, p)
	}
	checkList(long, shuffles)
	// an invalid input: error naming it, nothing else printed
	for pos := 0; pos < 3 && pos <= len(valid); pos++ {
		for _, badv := range []string{"not a version!", "", "%s?!", "!%d"} {
			if _, err := e.NewVersion(badv); err == nil {
				continue // this ecosystem accepts it
			}
			in := append(append(append([]string{}, valid[:pos]...), badv), valid[pos:min(len(valid), pos+2)]...)
			_, code, raw := runSort(in)
			count("invalid-input")
			if code == 0 {
				fail("invalid-input", fmt.Sprintf("sort %q exits 0 and prints %q", in, strings.TrimSpace(raw)))
				continue
			}
			if !strings.Contains(raw, badv) {
				fail("invalid-input", fmt.Sprintf("sort %q: the error %q does not name the invalid input %q", in, strings.TrimSpace(raw), badv))
			}
			for _, v := range valid[:pos] {
				if strings.Contains(raw, strconv.Quote(v)+" ") {
					fail("invalid-input", fmt.Sprintf("sort %q printed a partial result: %q", in, strings.TrimSpace(raw)))
				}
			}
		}
	}
}

func TestVerifReplay(t *testing.T) {
	fails := map[string]string{}
	evals := map[string]int{}
CALLS
	for _, eco := range []string{ECOLIST} {
		for _, k := range []string{"multiset", "ordered", "classes", "invalid-input", "pool"} {
			if msg, bad := fails[eco+"/"+k]; bad {
				fmt.Printf("VERIF-SORT\t%s/%s\tFAIL\t%s\n", eco, k, msg)
			} else if k != "pool" {
				fmt.Printf("VERIF-SORT\t%s/%s\tok\tevals=%d\n", eco, k, evals[eco+"/"+k])
			}
		}
	}
	fmt.Println("VERIF-DONE")
}
`

var sortEcosystems = []string{"alpine", "alpm", "apache", "cargo", "composer", "conan", "cran", "debian", "gem", "gentoo", "github", "golang", "hex", "mattermost", "maven", "npm", "nuget", "pypi", "rpm", "semver"}

func sortHarnessSource(seed int) string {
	var imports, calls strings.Builder
	for _, e := range sortEcosystems {
		// cli.go already imports every ecosystem package; a second import of the same path in another file is fine
		fmt.Fprintf(&imports, "\t%q\n", "github.com/alowayed/go-univers/pkg/ecosystem/"+e)
		fmt.Fprintf(&calls, "\tverifSort(%q, &%s.Ecosystem{}, fails, evals)\n", e, e)
	}
	src := strings.Replace(sortHarnessHead, "IMPORTS\n", imports.String(), 1)
	src = strings.Replace(src, "CALLS\n", calls.String(), 1)
	src = strings.Replace(src, "ECOLIST", quoteList(sortEcosystems), 1)
	if harnessThorough {
		src = strings.Replace(src, "SHUFFLES", "400", 1)
		src = strings.ReplaceAll(src, "WINDOW", "6")
	} else {
		src = strings.Replace(src, "SHUFFLES", "40", 1)
		src = strings.ReplaceAll(src, "WINDOW", "5")
	}
	return strings.Replace(src, "SEED", fmt.Sprint(seed), 1)
}

type sortResult struct {
	status map[string][2]string
	out    string
	secs   float64
	done   bool
}

var (
	sortMu    sync.Mutex
	sortCache *sortResult
)

func runSortHarness(w *World) *sortResult {
	sortMu.Lock()
	defer sortMu.Unlock()
	if sortCache != nil {
		return sortCache
	}
	res := &sortResult{status: map[string][2]string{}}
	sortCache = res
	pkg := w.byShort["cmd"]
	if pkg == nil {
		return res
	}
	start := time.Now()
	out, _ := runOverlayTest(w, pkg, sortHarnessSource(1), 600*time.Second)
	res.secs, res.out = time.Since(start).Seconds(), out
	for _, ln := range strings.Split(out, "\n") {
		if strings.HasPrefix(ln, "VERIF-DONE") {
			res.done = true
		}
		f := strings.Split(ln, "\t")
		if len(f) >= 4 && f[0] == "VERIF-SORT" {
			res.status[f[1]] = [2]string{f[2], f[3]}
		}
	}
	return res
}

func (w *World) sortVCs() []VC {
	bound := "20 ecosystems x lists drawn from a pool of 44 spellings (letter-case variants of pre-release labels included) (those the ecosystem accepts): all permutations of lists of length 1..6 and of every window of five over the pool (with duplicates and Compare-equal spellings), 40 seeded shuffles of a 64-element list, an invalid input at 3 positions"
	clauses := map[string]string{
		"multiset":      "the CLI sort command prints exactly the input strings (as a multiset)",
		"ordered":       "every adjacent pair of the printed versions is in non-decreasing order under the ecosystem's Compare",
		"classes":       "the printed sequence of equivalence classes is the same for every ordering of the same inputs",
		"invalid-input": "an invalid input gives a non-zero exit, an error that names it, and no partial result",
	}
	var vcs []VC
	for _, eco := range sortEcosystems {
		for _, k := range []string{"multiset", "ordered", "classes", "invalid-input"} {
			eco, k := eco, k
			vcs = append(vcs, VC{Name: "cmd.run.c07.sort[" + eco + "/" + k + "].bounded", Prop: "C07", Kind: "bounded.api", Fn: "cmd.sort", Bounded: bound, Pos: "cmd/commands.go", Clause: eco + ": " + clauses[k],
				Run: func() SolveResult {
					r := runSortHarness(w)
					res := SolveResult{Solver: "enumeration(go test -overlay)", Seconds: r.secs / 80}
					st, ok := r.status[eco+"/"+k]
					switch {
					case !r.done || !ok || r.status[eco+"/pool"][0] == "FAIL":
						res.Status, res.Output = "error", "harness did not complete: "+truncate(lastLines(r.out, 6), 600)
					case st[0] == "ok":
						res.Status, res.Output = "unsat", st[1]
					default:
						res.Status, res.Output = "sat", st[1]
						res.cx = &Counterexample{Confirmed: true, Observed: st[1], How: "real CLI run(" + eco + " sort ...) on lists of valid versions", Output: st[1]}
					}
					return res
				}})
		}
	}
	return vcs
}

package main

// C16: bounded obligations for the invariance of vers.Contains under re-spelling of a range: constraint order, white
// space, repeated constraints, empty constraints.  normalizeConstraints keeps a map of seen texts and sorts with a
// closure over a generic Compare; its effect on the final answer runs through groupConstraintsIntoIntervals, which is
// outside govc's loop summaries (see C04), so the invariance is checked on the real vers.Contains: every valid
// comparator shape with up to N constraints on pairwise different versions, every re-spelling of the given kind, every
// probe at and between the bounds, and the error/no-error outcome.

import (
	"fmt"
	"strings"
	"sync"
	"time"
)

const versInvTmpl = `package vers

import (
	"fmt"
	"strings"
	"testing"
)

func TestVerifReplay(t *testing.T) {
	maxN := %d
	schemes := []string{%s}
	ops := []string{"=", "!=", "<", "<=", ">", ">="}
	ver := func(k int) string { return fmt.Sprintf("%%d.0.0", k) }
	kinds := []string{"permutation", "whitespace", "duplicates", "empty-constraints", "invalid-unchanged"}
	bad := map[string]string{}
	evals := map[string]int{}
	var perms func(xs []string) [][]string
	perms = func(xs []string) [][]string {
		if len(xs) <= 1 {
			return [][]string{append([]string{}, xs...)}
		}
		var out [][]string
		for i := range xs {
			rest := append(append([]string{}, xs[:i]...), xs[i+1:]...)
			for _, p := range perms(rest) {
				out = append(out, append([]string{xs[i]}, p...))
			}
		}
		return out
	}
	type outcome struct {
		ok  bool
		err bool
	}
	eval := func(r, p string) outcome {
		got, err := Contains(r, p)
		return outcome{got, err != nil}
	}
	compare := func(kind, sc, base, variant string, n int) {
		for p := 1; p <= 2*n+1; p++ {
			evals[kind]++
			a, b := eval("vers:"+sc+"/"+base, ver(p)), eval("vers:"+sc+"/"+variant, ver(p))
			if a != b {
				if _, seen := bad[kind]; !seen {
					bad[kind] = fmt.Sprintf("Contains(%%q, %%q) = (%%v, error=%%v) but Contains(%%q, %%q) = (%%v, error=%%v)", "vers:"+sc+"/"+base, ver(p), a.ok, a.err, "vers:"+sc+"/"+variant, ver(p), b.ok, b.err)
				}
			}
		}
	}
	var shape []string
	check := func() {
		last := ""
		for _, o := range shape {
			if o == "=" || o == "!=" {
				continue
			}
			k := "L"
			if o == "<" || o == "<=" {
				k = "U"
			}
			if k == last {
				return
			}
			last = k
		}
		n := len(shape)
		var cs []string
		for i, o := range shape {
			cs = append(cs, o+ver(2*(i+1)))
		}
		base := strings.Join(cs, "|")
		for _, sc := range schemes {
			// constraint order
			for _, pm := range perms(cs) {
				compare("permutation", sc, base, strings.Join(pm, "|"), n)
			}
			// white space: around the separators, around the operator, inside the version, around the whole list
			var spaced []string
			for i, o := range shape {
				v := ver(2 * (i + 1))
				spaced = append(spaced, " "+o+" "+v[:1]+" "+v[1:]+" ")
			}
			compare("whitespace", sc, base, strings.Join(spaced, " | "), n)
			compare("whitespace", sc, base, "  "+base+"  ", n)
			compare("whitespace", sc, base, strings.Join(cs, " |"), n)
			compare("whitespace", sc, base, strings.ReplaceAll(base, ".", " . "), n)
			compare("whitespace", sc, base, strings.Join(spaced, "  |  "), n)
			// repeated constraints: each one doubled in place, appended at the end, put in front (also spelled with spaces)
			for i := range cs {
				dup := append(append(append([]string{}, cs[:i+1]...), cs[i]), cs[i+1:]...)
				compare("duplicates", sc, base, strings.Join(dup, "|"), n)
				compare("duplicates", sc, base, base+"|"+cs[i], n)
				compare("duplicates", sc, base, cs[i]+"|"+base, n)
				compare("duplicates", sc, base, base+"| "+shape[i]+" "+ver(2*(i+1)), n)
			}
			// empty constraints
			compare("empty-constraints", sc, base, "|"+base, n)
			compare("empty-constraints", sc, base, base+"|", n)
			compare("empty-constraints", sc, base, strings.Join(cs, "||"), n)
			compare("empty-constraints", sc, base, "| |"+strings.Join(cs, "| |")+"| |", n)
		}
	}
	var rec func()
	rec = func() {
		if len(shape) >= 1 {
			check()
		}
		if len(shape) == maxN {
			return
		}
		for _, o := range ops {
			shape = append(shape, o)
			rec()
			shape = shape[:len(shape)-1]
		}
	}
	rec()
	// pre-release bounds and pre-release probes (pypi decides from the constraints whether pre-releases are admitted at all,
	// so the outcome must not depend on where an empty constraint, a duplicate or a blank sits)
	pre := map[string][3][]string{
		"pypi":    {{">=1.0.0a1", "<=2.0.0"}, {">=1.0.0", "<2.0.0rc1"}, {"1.5.0b1", "2.0.0b2", "1.2.dev3", "1.5.0", "0.9", "2.0.0", "3.0", "1.0.0a1", "2.0.0rc1"}},
		"npm":     {{">=1.0.0-alpha", "<=2.0.0"}, {">=1.0.0", "<2.0.0-rc.1"}, {"1.5.0-beta", "2.0.0-beta", "1.5.0", "0.9.0", "2.0.0", "3.0.0", "1.0.0-alpha", "2.0.0-rc.1"}},
		"generic": {{">=1.0.0-alpha", "<=2.0.0"}, {">=1.0.0", "<2.0.0-rc.1"}, {"1.5.0-beta", "2.0.0-beta", "1.5.0", "0.9.0", "2.0.0", "3.0.0", "1.0.0-alpha", "2.0.0-rc.1"}},
		"maven":   {{">=1.0.0-alpha-1", "<=2.0.0"}, {">=1.0.0", "<2.0.0-rc-1"}, {"1.5.0-beta-1", "2.0.0-beta-1", "1.5.0", "0.9", "2.0.0", "3.0", "1.0.0-alpha-1", "2.0.0-rc-1"}},
		"deb":     {{">=1.0.0~rc1", "<=2.0.0"}, {">=1.0.0", "<2.0.0~rc1"}, {"1.5.0~beta1", "2.0.0~beta1", "1.5.0", "0.9", "2.0.0", "3.0", "1.0.0~rc1", "2.0.0~rc1"}},
	}
	compareP := func(kind, sc, base, variant string, probes []string) {
		for _, p := range probes {
			evals[kind]++
			a, b := eval("vers:"+sc+"/"+base, p), eval("vers:"+sc+"/"+variant, p)
			if a != b {
				if _, seen := bad[kind]; !seen {
					bad[kind] = fmt.Sprintf("Contains(%%q, %%q) = (%%v, error=%%v) but Contains(%%q, %%q) = (%%v, error=%%v)", "vers:"+sc+"/"+base, p, a.ok, a.err, "vers:"+sc+"/"+variant, p, b.ok, b.err)
				}
			}
		}
	}
	for _, sc := range schemes {
		spec, ok := pre[sc]
		if !ok {
			continue
		}
		for _, cs := range [][]string{spec[0], spec[1]} {
			base := strings.Join(cs, "|")
			probes := spec[2]
			compareP("permutation", sc, base, cs[1]+"|"+cs[0], probes)
			compareP("whitespace", sc, base, " "+cs[0]+" | "+cs[1]+" ", probes)
			compareP("duplicates", sc, base, base+"|"+cs[0], probes)
			compareP("duplicates", sc, base, cs[1]+"|"+base, probes)
			compareP("empty-constraints", sc, base, "|"+base, probes)
			compareP("empty-constraints", sc, base, base+"|", probes)
			compareP("empty-constraints", sc, base, cs[0]+"||"+cs[1], probes)
			compareP("empty-constraints", sc, base, " |"+cs[0]+"| |"+cs[1]+"| ", probes)
		}
	}
	// ranges that are rejected stay rejected however they are spelled (the error outcome is part of the property)
	for _, sc := range schemes {
		for _, r := range [][2]string{{">=2.0.0|>=4.0.0", ">=4.0.0|>=2.0.0"}, {"<2.0.0|<4.0.0", " <4.0.0 | <2.0.0"}, {">=x|<4.0.0", "<4.0.0|>=x"}, {"2.0.0", " 2.0.0 "}, {">=|<4.0.0", "<4.0.0|>="}} {
			compare("invalid-unchanged", sc, r[0], r[1], 2)
		}
	}
	for _, k := range kinds {
		if msg, isBad := bad[k]; isBad {
			fmt.Printf("VERIF-INV\t%%s\tFAIL\t%%s\n", k, msg)
		} else {
			fmt.Printf("VERIF-INV\t%%s\tok\tevals=%%d\n", k, evals[k])
		}
	}
	fmt.Println("VERIF-DONE")
}
`

type versInvResult struct {
	status map[string][2]string
	out    string
	secs   float64
	done   bool
}

var (
	versInvMu    sync.Mutex
	versInvCache = map[string]*versInvResult{}
)

func runVersInv(w *World, tier string) *versInvResult {
	versInvMu.Lock()
	defer versInvMu.Unlock()
	if r, ok := versInvCache[tier]; ok {
		return r
	}
	res := &versInvResult{status: map[string][2]string{}}
	versInvCache[tier] = res
	pkg := w.byShort["vers"]
	if pkg == nil {
		return res
	}
	maxN, schemes := 3, `"npm", "deb", "pypi", "maven", "generic"`
	if tier == "thorough" {
		maxN, schemes = 4, `"alpine", "cargo", "deb", "gem", "generic", "golang", "maven", "npm", "nuget", "pypi", "rpm"`
	}
	start := time.Now()
	out, _ := runOverlayTest(w, pkg, fmt.Sprintf(versInvTmpl, maxN, schemes), 900*time.Second)
	res.secs, res.out = time.Since(start).Seconds(), out
	for _, ln := range strings.Split(out, "\n") {
		if strings.HasPrefix(ln, "VERIF-DONE") {
			res.done = true
		}
		f := strings.Split(ln, "\t")
		if len(f) >= 4 && f[0] == "VERIF-INV" {
			res.status[f[1]] = [2]string{f[2], f[3]}
		}
	}
	return res
}

func (w *World) versInvVCs(tier string) []VC {
	bound := "5 schemes x every valid comparator shape with 1..3 constraints on different versions x all permutations / 5 white-space spellings / every duplication / 4 empty-constraint spellings x probes at and between the bounds; plus pre-release bounds with pre-release probes for pypi, npm, generic, maven and deb"
	if tier == "thorough" {
		bound = "all 11 schemes x every valid comparator shape with 1..4 constraints on different versions x all permutations / 5 white-space spellings / every duplication / 4 empty-constraint spellings x probes at and between the bounds; plus pre-release bounds with pre-release probes (pypi, npm, generic, maven, deb)"
	}
	var vcs []VC
	for _, k := range []string{"permutation", "whitespace", "duplicates", "empty-constraints", "invalid-unchanged"} {
		k := k
		vcs = append(vcs, VC{Name: "vers.Contains.c16.invariance[" + k + "]", Prop: "C16", Kind: "bounded.api", Fn: "vers.Contains", Bounded: bound, Pos: "pkg/spec/vers/vers.go",
			Clause: "vers.Contains gives the same answer and the same error outcome for a range and its re-spelling (" + k + ")",
			Run: func() SolveResult {
				r := runVersInv(w, tier)
				res := SolveResult{Solver: "enumeration(go test -overlay)", Seconds: r.secs / 5}
				st, ok := r.status[k]
				switch {
				case !r.done || !ok:
					res.Status, res.Output = "error", "harness did not complete: "+truncate(lastLines(r.out, 6), 600)
				case st[0] == "ok":
					res.Status, res.Output = "unsat", st[1]
				default:
					res.Status, res.Output = "sat", st[1]
					res.cx = &Counterexample{Confirmed: true, Observed: st[1], How: "real vers.Contains on a range and a re-spelling of it", Output: st[1]}
				}
				return res
			}})
	}
	return vcs
}

package main

// C02 bounded API obligations, per ecosystem: through the real CLI front end (`run <eco> contains` / `compare`),
//   single - a range made of one supported comparator directly before a valid version parses and contains v exactly
//            when comparing v with the bound satisfies the comparator,
//   and    - two comparators joined by the ecosystem's AND separator(s) contain exactly the intersection,
//   or     - (npm, composer, conan) two groups joined by "||" contain exactly the union.
// The contracts prove the matching predicates and, where the parser is within govc's reach, the text-to-constraint
// step; this layer adds the ecosystems whose range parsers go through regular expressions (alpm, apache, github,
// mattermost, hex, conan) and the text-to-fields step everywhere.  Operator and separator tables are the documented
// ones (C02's scoping: npm without "!=", nuget only in its comma list form, maven has no comparator syntax).

import (
	"fmt"
	"strings"
	"sync"
	"time"

	"golang.org/x/tools/go/ssa"
)

type rangeOpsEco struct {
	name   string
	ops    []string // supported comparators
	alias  map[string]string
	ands   []string // AND separators
	or     string
	prefix string // version prefix the ecosystem requires ("v" for golang)
	listOnly bool // nuget: comparators are claimed only inside the comma list form
}

var six = []string{"=", "!=", "<", "<=", ">", ">="}
var five = []string{"=", "<", "<=", ">", ">="}

var rangeOpsEcos = []rangeOpsEco{
	{name: "alpine", ops: six, ands: []string{" "}},
	{name: "alpm", ops: five, ands: []string{" "}},
	{name: "apache", ops: five, ands: []string{" "}},
	{name: "cargo", ops: six, ands: []string{",", ", "}},
	{name: "composer", ops: six, alias: map[string]string{"<>": "!="}, ands: []string{" ", ","}, or: "||"},
	{name: "conan", ops: six, ands: []string{" ", ","}, or: "||"},
	{name: "cran", ops: six, ands: []string{",", ", "}},
	{name: "debian", ops: six, alias: map[string]string{"<<": "<", ">>": ">"}, ands: []string{",", ", "}},
	{name: "gem", ops: six, ands: []string{",", ", "}},
	{name: "gentoo", ops: six, ands: []string{" ", ","}},
	{name: "github", ops: five, ands: []string{" "}},
	{name: "golang", ops: six, ands: []string{" "}, prefix: "v"},
	{name: "hex", ops: five, ands: []string{" ", " and "}},
	{name: "mattermost", ops: five, ands: []string{" "}},
	{name: "npm", ops: five, ands: []string{" "}, or: "||"},
	{name: "nuget", ops: six, ands: []string{",", ", "}, listOnly: true},
	{name: "pypi", ops: []string{"==", "!=", "<", "<=", ">", ">="}, alias: map[string]string{}, ands: []string{",", ", "}},
	{name: "rpm", ops: six, ands: []string{" ", ","}},
	{name: "semver", ops: six, ands: []string{" ", ","}},
}

const rangeOpsTmpl = `package main

import (
	"bytes"
	"fmt"
	"strings"
	"testing"
)

type verifEco struct {
	name     string
	ops      []string
	alias    map[string]string
	ands     []string
	or       string
	prefix   string
	listOnly bool
}

func verifSat(op string, c int) bool {
	switch op {
	case "=", "==":
		return c == 0
	case "!=":
		return c != 0
	case "<":
		return c < 0
	case "<=":
		return c <= 0
	case ">":
		return c > 0
	case ">=":
		return c >= 0
	}
	return false
}

func TestVerifReplay(t *testing.T) {
	ecos := []verifEco{ECOS}
	// bounds are taken from the front of the pool: plain versions and pre-releases in both letter cases
	pool := []string{"1.0.0", "1.2.3", "1.0.0-RC1", "2.0.0", "1.0.0-beta.2", "1.10.0", "0.9.0", "1.2.4", "1.0.0-alpha", "1.0.0-rc1", "1.0.0-Beta.1", "3.1.0"}
	for _, e := range ecos {
		var valid []string
		for _, s := range pool {
			var buf bytes.Buffer
			if run(&buf, []string{e.name, "compare", e.prefix + s, e.prefix + s}) == 0 {
				valid = append(valid, e.prefix+s)
			}
		}
		cmp := func(a, b string) int {
			var buf bytes.Buffer
			run(&buf, []string{e.name, "compare", a, b})
			var c int
			fmt.Sscan(strings.TrimSpace(buf.String()), &c)
			return c
		}
		contains := func(r, v string) (bool, bool) {
			var buf bytes.Buffer
			code := run(&buf, []string{e.name, "contains", r, v})
			return strings.TrimSpace(buf.String()) == "true", code == 0
		}
		fails := map[string]string{}
		evals := map[string]int{}
		fail := func(k, msg string) {
			if fails[k] == "" {
				fails[k] = msg
			}
		}
		type oc struct{ text, meaning string }
		var ops []oc
		for _, o := range e.ops {
			ops = append(ops, oc{o, o})
		}
		for a, m := range e.alias {
			ops = append(ops, oc{a, m})
		}
		bounds := valid
		if len(bounds) > MAXBOUNDS {
			bounds = bounds[:MAXBOUNDS]
		}
		group := func(o1 oc, b1 string, o2 oc, b2 string, sep string) string { return o1.text + b1 + sep + o2.text + b2 }
		if !e.listOnly {
			for _, o := range ops {
				for _, b := range bounds {
					for _, v := range valid {
						evals["single"]++
						got, ok := contains(o.text+b, v)
						if !ok {
							fail("single", fmt.Sprintf("range %q is rejected (or probe %q)", o.text+b, v))
							continue
						}
						if want := verifSat(o.meaning, cmp(v, b)); got != want {
							fail("single", fmt.Sprintf("contains(%q, %q) = %v but compare(%q, %q) = %d", o.text+b, v, got, v, b, cmp(v, b)))
						}
					}
				}
			}
		}
		for _, sep := range e.ands {
			for i, o1 := range ops {
				for j, o2 := range ops {
					if (i+j)%2 == 1 && len(ops) > 5 && !ALLPAIRS {
						continue // half of the operator pairs
					}
					for bi, b1 := range bounds {
						b2 := bounds[(bi+1)%len(bounds)]
						r := group(o1, b1, o2, b2, sep)
						for _, v := range valid {
							evals["and"]++
							got, ok := contains(r, v)
							if !ok {
								fail("and", fmt.Sprintf("range %q is rejected", r))
								continue
							}
							if want := verifSat(o1.meaning, cmp(v, b1)) && verifSat(o2.meaning, cmp(v, b2)); got != want {
								fail("and", fmt.Sprintf("contains(%q, %q) = %v, the intersection says %v", r, v, got, want))
							}
						}
					}
				}
			}
		}
		if e.or != "" {
			for _, orsep := range []string{e.or, " " + e.or + " "} {
				for i, o1 := range ops {
					for j, o2 := range ops {
						if (i+j)%2 == 1 && !ALLPAIRS {
							continue
						}
						for bi, b1 := range bounds {
							b2 := bounds[(bi+2)%len(bounds)]
							// group 1: o1 b1 AND >= smallest ; group 2: o2 b2
							g1 := o1.text + b1
							r := g1 + orsep + o2.text + b2
							for _, v := range valid {
								evals["or"]++
								got, ok := contains(r, v)
								if !ok {
									fail("or", fmt.Sprintf("range %q is rejected", r))
									continue
								}
								if want := verifSat(o1.meaning, cmp(v, b1)) || verifSat(o2.meaning, cmp(v, b2)); got != want {
									fail("or", fmt.Sprintf("contains(%q, %q) = %v, the union says %v", r, v, got, want))
								}
							}
							// an AND group on the left of the union
							r2 := group(o1, b1, o2, b2, e.ands[0]) + orsep + "=" + bounds[(bi+3)%len(bounds)]
							for _, v := range valid {
								evals["or"]++
								got, ok := contains(r2, v)
								if !ok {
									fail("or", fmt.Sprintf("range %q is rejected", r2))
									continue
								}
								want := (verifSat(o1.meaning, cmp(v, b1)) && verifSat(o2.meaning, cmp(v, b2))) || cmp(v, bounds[(bi+3)%len(bounds)]) == 0
								if got != want {
									fail("or", fmt.Sprintf("contains(%q, %q) = %v, the union of intersections says %v", r2, v, got, want))
								}
							}
							// three groups: every group of the union counts, not only the first two
							b3 := bounds[(bi+3)%len(bounds)]
							r3 := o1.text + b1 + orsep + o2.text + b2 + orsep + "=" + b3
							for _, v := range valid {
								evals["or"]++
								got, ok := contains(r3, v)
								if !ok {
									fail("or", fmt.Sprintf("range %q is rejected", r3))
									continue
								}
								if want := verifSat(o1.meaning, cmp(v, b1)) || verifSat(o2.meaning, cmp(v, b2)) || cmp(v, b3) == 0; got != want {
									fail("or", fmt.Sprintf("contains(%q, %q) = %v, the union of three groups says %v", r3, v, got, want))
								}
							}
						}
					}
				}
			}
		}
		for _, k := range []string{"single", "and", "or"} {
			if evals[k] == 0 && fails[k] == "" {
				continue
			}
			if fails[k] != "" {
				fmt.Printf("VERIF-OPS\t%s/%s\tFAIL\t%s\n", e.name, k, fails[k])
			} else {
				fmt.Printf("VERIF-OPS\t%s/%s\tok\tevals=%d\n", e.name, k, evals[k])
			}
		}
		if len(valid) < 3 {
			fmt.Printf("VERIF-OPS\t%s/single\tFAIL\tfewer than three pool versions are accepted\n", e.name)
		}
	}
	fmt.Println("VERIF-DONE")
}
`

func rangeOpsSource() string {
	var b strings.Builder
	for _, e := range rangeOpsEcos {
		alias := "nil"
		if len(e.alias) > 0 {
			var kv []string
			for k, v := range e.alias {
				kv = append(kv, fmt.Sprintf("%q: %q", k, v))
			}
			alias = "map[string]string{" + strings.Join(kv, ", ") + "}"
		}
		fmt.Fprintf(&b, "\n\t\t{name: %q, ops: []string{%s}, alias: %s, ands: []string{%s}, or: %q, prefix: %q, listOnly: %v},", e.name, quoteList(e.ops), alias, quoteList(e.ands), e.or, e.prefix, e.listOnly)
	}
	src := strings.Replace(rangeOpsTmpl, "ECOS", b.String()+"\n\t", 1)
	if harnessThorough {
		src = strings.ReplaceAll(src, "MAXBOUNDS", "9")
		src = strings.ReplaceAll(src, "ALLPAIRS", "true")
	} else {
		src = strings.ReplaceAll(src, "MAXBOUNDS", "5")
		src = strings.ReplaceAll(src, "ALLPAIRS", "false")
	}
	return src
}

type rangeOpsResult struct {
	status map[string][2]string
	out    string
	secs   float64
	done   bool
}

var (
	rangeOpsMu    sync.Mutex
	rangeOpsCache *rangeOpsResult
)

func runRangeOps(w *World) *rangeOpsResult {
	rangeOpsMu.Lock()
	defer rangeOpsMu.Unlock()
	if rangeOpsCache != nil {
		return rangeOpsCache
	}
	res := &rangeOpsResult{status: map[string][2]string{}}
	rangeOpsCache = res
	pkg := w.byShort["cmd"]
	if pkg == nil {
		return res
	}
	start := time.Now()
	out, _ := runOverlayTest(w, pkg, rangeOpsSource(), 600*time.Second)
	res.secs, res.out = time.Since(start).Seconds(), out
	for _, ln := range strings.Split(out, "\n") {
		if strings.HasPrefix(ln, "VERIF-DONE") {
			res.done = true
		}
		f := strings.Split(ln, "\t")
		if len(f) >= 4 && f[0] == "VERIF-OPS" {
			res.status[f[1]] = [2]string{f[2], f[3]}
		}
	}
	return res
}

func (w *World) rangeOpsVCs() []VC {
	var vcs []VC
	for _, e := range rangeOpsEcos {
		kinds := []string{"and"}
		if !e.listOnly {
			kinds = []string{"single", "and"}
		}
		if e.or != "" {
			kinds = append(kinds, "or")
		}
		for _, k := range kinds {
			e, k := e, k
			clause := map[string]string{
				"single": "a range of one comparator (" + strings.Join(e.ops, " ") + ") directly before a valid version contains v exactly when comparing v with the bound satisfies it",
				"and":    "two comparators joined by the AND separator contain exactly the intersection",
				"or":     "groups joined by " + e.or + " contain exactly the union",
			}[k]
			vcs = append(vcs, VC{Name: e.name + ".(*Ecosystem).NewVersionRange.comparators[" + k + "].bounded", Prop: "C02", Kind: "bounded.api", Fn: e.name + ".(*Ecosystem).NewVersionRange", Pos: "pkg/ecosystem/" + e.name + "/range.go",
				Clause: e.name + ": " + clause, Bounded: "every supported comparator (and alias) x 5 bound versions x up to 12 probe versions (incl. pre-releases in both letter cases); operator pairs x neighbouring bounds for AND / OR; through the CLI front end",
				Run: func() SolveResult {
					r := runRangeOps(w)
					res := SolveResult{Solver: "enumeration(go test -overlay)", Seconds: r.secs / 50}
					st, ok := r.status[e.name+"/"+k]
					switch {
					case !r.done || !ok:
						res.Status, res.Output = "error", "harness did not complete: "+truncate(lastLines(r.out, 6), 600)
					case st[0] == "ok":
						res.Status, res.Output = "unsat", st[1]
					default:
						res.Status, res.Output = "sat", st[1]
						res.cx = &Counterexample{Confirmed: true, Observed: st[1], How: "real CLI: run(" + e.name + " contains <range> <v>) against run(" + e.name + " compare <v> <bound>)", Output: st[1]}
					}
					return res
				}})
		}
	}
	return vcs
}

// rangeOpsFalsifier is the replay of a failed C02 obligation: the first difference the per-ecosystem comparator harness
// (documented operator and separator tables) finds for the ecosystem of the failed function.
func rangeOpsFalsifier(w *World, fn *ssa.Function, r vcResult) *Counterexample {
	eco := strings.SplitN(r.vc.Fn, ".", 2)[0]
	if fn != nil && fn.Pkg != nil {
		eco = fn.Pkg.Pkg.Name()
	}
	res := runRangeOps(w)
	cx := &Counterexample{How: "real CLI: run(" + eco + " contains <range> <v>) against run(" + eco + " compare <v> <bound>) for the documented comparators and separators", Output: truncate(lastLines(res.out, 6), 1200), Observed: "no difference observed"}
	for _, k := range []string{"single", "and", "or"} {
		if st := res.status[eco+"/"+k]; st[0] == "FAIL" {
			cx.Confirmed, cx.Observed = true, eco+" "+k+": "+st[1]
			break
		}
	}
	return cx
}

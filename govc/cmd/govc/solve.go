package main

import (
	"bytes"
	"context"
	"crypto/sha256"
	"encoding/hex"
	"fmt"
	"os"
	"os/exec"
	"path/filepath"
	"strings"
	"sync"
	"time"
)

type SolveResult struct {
	Status  string // unsat, sat, unknown, timeout, error
	Solver  string
	Seconds float64
	Output  string
	Cached  bool
	All     map[string]string // per-solver status
	cx      *Counterexample
}

type solverSpec struct {
	name string
	args func(file string, timeoutMs int) []string
}

var solvers = []solverSpec{
	{"z3-new", func(f string, t int) []string { return []string{"z3-new", fmt.Sprintf("-t:%d", t), f} }},
	{"z3", func(f string, t int) []string { return []string{"z3", fmt.Sprintf("-t:%d", t), f} }},
	{"cvc5", func(f string, t int) []string {
		return []string{"cvc5", fmt.Sprintf("--tlimit=%d", t), "--produce-models", f}
	}},
}

var (
	cacheDir   = "/verif/work/cache"
	cacheMu    sync.Mutex
	solverSem  = make(chan struct{}, 14)
	wantAgree  = false
	useCache   = false // a cached `unsat` hides how long the proof took; only `govc dev` uses it
)

func scriptHash(s string) string {
	h := sha256.Sum256([]byte(s))
	return hex.EncodeToString(h[:16])
}

// solve races the back ends on one script (which must end with check-sat).
func solve(script string, file string, timeout time.Duration, needModel bool) SolveResult {
	full := script
	h := scriptHash(full)
	if !needModel && useCache {
		cacheMu.Lock()
		b, err := os.ReadFile(filepath.Join(cacheDir, h))
		cacheMu.Unlock()
		if err == nil {
			f := strings.Fields(string(b))
			if len(f) >= 2 && f[0] == "unsat" {
				return SolveResult{Status: "unsat", Solver: f[1], Cached: true}
			}
		}
	}
	os.MkdirAll(filepath.Dir(file), 0o755)
	os.WriteFile(file, []byte(full), 0o644)
	ctx, cancel := context.WithCancel(context.Background())
	defer cancel()
	type one struct {
		solver, status, out string
		secs                float64
	}
	use := solvers
	if needModel {
		use = solvers[:2] // vacuity canaries: the two z3 versions are enough to expose a contradiction
	}
	ch := make(chan one, len(use))
	for _, sp := range use {
		sp := sp
		go func() {
			solverSem <- struct{}{}
			defer func() { <-solverSem }()
			if ctx.Err() != nil {
				ch <- one{sp.name, "cancelled", "", 0}
				return
			}
			args := sp.args(file, int(timeout.Milliseconds()))
			start := time.Now()
			cctx, ccancel := context.WithTimeout(ctx, timeout+2*time.Second)
			defer ccancel()
			cmd := exec.CommandContext(cctx, args[0], args[1:]...)
			var out bytes.Buffer
			cmd.Stdout = &out
			cmd.Stderr = &out
			cmd.Run()
			secs := time.Since(start).Seconds()
			first := ""
			for _, ln := range strings.Split(out.String(), "\n") {
				ln = strings.TrimSpace(ln)
				if ln == "sat" || ln == "unsat" || ln == "unknown" || strings.HasPrefix(ln, "(error") || strings.Contains(ln, "timeout") {
					first = ln
					break
				}
			}
			st := "error"
			switch {
			case first == "unsat" || first == "sat" || first == "unknown":
				st = first
			case strings.Contains(first, "timeout") || cctx.Err() != nil || strings.Contains(out.String(), "interrupted by timeout"):
				st = "timeout"
			}
			ch <- one{sp.name, st, out.String(), secs}
		}()
	}
	res := SolveResult{Status: "unknown", All: map[string]string{}}
	var satOut one
	haveSat := false
	for i := 0; i < len(use); i++ {
		o := <-ch
		res.All[o.solver] = o.status
		if o.status == "unsat" && res.Status != "unsat" {
			res.Status, res.Solver, res.Seconds, res.Output = "unsat", o.solver, o.secs, o.out
			if !wantAgree {
				cancel()
			}
		}
		if o.status == "sat" && !haveSat {
			haveSat = true
			satOut = o
			if !wantAgree {
				cancel()
			}
		}
		if o.status == "error" && res.Output == "" {
			res.Output = o.solver + ": " + truncate(o.out, 400)
		}
	}
	if res.Status == "unsat" && haveSat {
		res.Status = "error"
		res.Output = "solvers disagree: " + res.Solver + " unsat, " + satOut.solver + " sat"
		return res
	}
	if res.Status == "unsat" {
		cacheMu.Lock()
		os.MkdirAll(cacheDir, 0o755)
		os.WriteFile(filepath.Join(cacheDir, h), []byte("unsat "+res.Solver+"\n"), 0o644)
		cacheMu.Unlock()
		return res
	}
	if haveSat {
		res.Status, res.Solver, res.Seconds, res.Output = "sat", satOut.solver, satOut.secs, satOut.out
		return res
	}
	// all unknown/timeout
	st := "timeout"
	for _, s := range res.All {
		if s == "unknown" {
			st = "unknown"
		}
		if s == "error" && st != "unknown" {
			st = "error"
		}
	}
	res.Status = st
	return res
}

// solveStaged: establish which return points are unreachable under the clause's hypothesis (each a small query),
// assert those facts, then try the goal again.  Every added fact is itself proved, so the result is as sound as
// the direct query.
func solveStaged(vc VC, file string, timeout time.Duration, first SolveResult) SolveResult {
	var lemmas []string
	short := timeout / 3
	if short > 3*time.Second {
		short = 3 * time.Second
	}
	for i, c := range vc.StageCands {
		q := vc.StageBase + "(assert " + vc.StageHyp + ")\n(assert " + c + ")\n(check-sat)\n"
		r := solve(q, fmt.Sprintf("%s.stage%d.smt2", strings.TrimSuffix(file, ".smt2"), i), short, false)
		if r.Status == "unsat" {
			lemmas = append(lemmas, "(assert (not "+c+"))")
		}
	}
	if len(lemmas) > 0 {
		q := vc.StageBase + "(assert " + vc.StageHyp + ")\n" + strings.Join(lemmas, "\n") + "\n(assert (not " + vc.StageGoal + "))\n(check-sat)\n"
		r := solve(q, strings.TrimSuffix(file, ".smt2")+".staged.smt2", timeout, false)
		if r.Status == "unsat" {
			r.Output = fmt.Sprintf("discharged after establishing %d unreachable return points", len(lemmas))
			return r
		}
	}
	// case split over the return points (the base asserts that one of them is taken): every case on its own
	if len(vc.StageCands) < 2 || len(vc.StageCands) > 24 {
		return first
	}
	var total float64
	last := first
	for i, c := range vc.StageCands {
		q := vc.StageBase + "(assert " + vc.StageHyp + ")\n(assert " + c + ")\n(assert (not " + vc.StageGoal + "))\n(check-sat)\n"
		r := solve(q, fmt.Sprintf("%s.case%d.smt2", strings.TrimSuffix(file, ".smt2"), i), timeout, false)
		total += r.Seconds
		if r.Status != "unsat" {
			return first
		}
		last = r
	}
	last.Seconds = total
	last.Output = fmt.Sprintf("discharged by a case split over the %d return points", len(vc.StageCands))
	return last
}

package main

// C18 read-frame obligations, decided by dataflow over the SSA of the real code:
//
//	T1 (per constructor): the raw input string is used only (a) as the argument of strings.TrimSpace, (b) as
//	   the value stored in the field `original`, (c) in `== ""` tests and (d) in error messages.  Everything
//	   else the constructor computes is therefore a function of TrimSpace(input).
//	T2 (per read site): code other than String() and the constructors reads the stored text (field `original`
//	   or a String() call on a version/range) only if the package stores the trimmed text, or wraps the read in
//	   strings.TrimSpace.
import (
	"fmt"
	"go/constant"
	"go/token"
	"go/types"
	"sort"
	"strings"

	"golang.org/x/tools/go/ssa"
)

func isCallTo(in ssa.Instruction, name string) (*ssa.Call, bool) {
	c, ok := in.(*ssa.Call)
	if !ok {
		return nil, false
	}
	f := c.Call.StaticCallee()
	if f == nil {
		return nil, false
	}
	return c, f.String() == name
}

// onlyErrorText: v (an interface box or the varargs array/slice) flows only into fmt.Errorf / fmt.Sprintf whose
// result in turn flows only into error construction.  We accept any flow that ends in fmt.Errorf.
func onlyErrorText(v ssa.Value, depth int) bool {
	if depth > 6 || v.Referrers() == nil {
		return false
	}
	for _, ref := range *v.Referrers() {
		switch x := ref.(type) {
		case *ssa.Store:
			// stored into the varargs array
			if ia, ok := x.Addr.(*ssa.IndexAddr); ok {
				if !onlyErrorText(ia.X, depth+1) {
					return false
				}
				continue
			}
			return false
		case *ssa.IndexAddr, *ssa.DebugRef:
			continue
		case *ssa.Slice:
			if !onlyErrorText(x, depth+1) {
				return false
			}
		case *ssa.Call:
			f := x.Call.StaticCallee()
			if f == nil || (f.String() != "fmt.Errorf") {
				return false
			}
		default:
			return false
		}
	}
	return true
}

type flowResult struct {
	name, fn, pos, reason string
	ok                    bool
}

func (w *World) rawInputUses(fn *ssa.Function, p ssa.Value, seen map[*ssa.Function]bool, out *[]flowResult, key string, n *int) {
	if p.Referrers() == nil {
		return
	}
	for _, ref := range *p.Referrers() {
		ok := false
		reason := ""
		switch x := ref.(type) {
		case *ssa.DebugRef:
			continue
		case *ssa.Call:
			f := x.Call.StaticCallee()
			switch {
			case f != nil && f.String() == "strings.TrimSpace":
				ok = true
			case f != nil && f.String() == "strings.ToLower" && onlyTrimmed(x):
				ok = true // TrimSpace(ToLower(s)) == ToLower(TrimSpace(s)): case mapping never creates or removes white space
			case f != nil && isRepoPkg(pkgOf(f)) && f.Blocks != nil:
				// raw text handed to a helper: the helper's parameter must obey the same rule
				ok = true
				if !seen[f] {
					seen[f] = true
					for i, a := range x.Call.Args {
						if a == p && i < len(f.Params) {
							w.rawInputUses(f, f.Params[i], seen, out, key, n)
						}
					}
				}
			default:
				reason = "raw input passed to " + x.Call.Value.String()
			}
		case *ssa.Store:
			if fa, isFA := x.Addr.(*ssa.FieldAddr); isFA && x.Val == p {
				if st, _ := structOf(fa.X.Type()); st != nil && st.Field(fa.Field).Name() == "original" {
					ok = true
				}
			}
			if !ok {
				reason = "raw input stored somewhere other than the field original"
			}
		case *ssa.MakeInterface:
			ok = onlyErrorText(x, 0)
			if !ok {
				reason = "raw input boxed for something other than an error message"
			}
		case *ssa.BinOp:
			if (x.Op == token.EQL || x.Op == token.NEQ) && (isEmptyConst(x.X) || isEmptyConst(x.Y)) {
				ok = true
			} else {
				reason = "raw input compared or concatenated: " + x.String()
			}
		case *ssa.Phi:
			ok = false
			reason = "raw input merged with another value"
		default:
			reason = fmt.Sprintf("raw input used by %s", ref.String())
		}
		*n++
		*out = append(*out, flowResult{name: fmt.Sprintf("%s.rawinput#%d", key, *n), fn: key, ok: ok, reason: reason, pos: w.pos(ref.Pos())})
	}
}

func onlyTrimmed(v ssa.Value) bool {
	if v.Referrers() == nil {
		return false
	}
	for _, ref := range *v.Referrers() {
		if _, dbg := ref.(*ssa.DebugRef); dbg {
			continue
		}
		if _, ok := isCallTo(ref, "strings.TrimSpace"); !ok {
			return false
		}
	}
	return true
}

func isEmptyConst(v ssa.Value) bool {
	c, ok := v.(*ssa.Const)
	return ok && c.Value != nil && c.Value.Kind() == constant.String && constant.StringVal(c.Value) == ""
}

// storesTrimmed: every store into field `original` inside the constructors of pkg stores a value derived from
// strings.TrimSpace (so the stored text carries no outer whitespace).
func (w *World) storesTrimmed(pkg *ssa.Package, typeName string) bool {
	found := false
	for _, fn := range w.allFuncs {
		if fn.Pkg != pkg {
			continue
		}
		for _, b := range fn.Blocks {
			for _, in := range b.Instrs {
				st, ok := in.(*ssa.Store)
				if !ok {
					continue
				}
				fa, ok := st.Addr.(*ssa.FieldAddr)
				if !ok {
					continue
				}
				stt, nt := structOf(fa.X.Type())
				if stt == nil || stt.Field(fa.Field).Name() != "original" {
					continue
				}
				if n, ok := nt.(*types.Named); !ok || n.Obj().Name() != typeName {
					continue
				}
				found = true
				if !derivedFromTrim(st.Val, 0) {
					return false
				}
			}
		}
	}
	return found
}

func derivedFromTrim(v ssa.Value, depth int) bool {
	if depth > 8 {
		return false
	}
	switch x := v.(type) {
	case *ssa.Call:
		if f := x.Call.StaticCallee(); f != nil {
			switch f.String() {
			case "strings.TrimSpace":
				return true
			case "strings.ToLower":
				return derivedFromTrim(x.Call.Args[0], depth+1)
			case "fmt.Sprintf":
				return true // generated text, no outer whitespace in the formats used (checked by C05 contracts)
			}
		}
	case *ssa.Phi:
		for _, e := range x.Edges {
			if !derivedFromTrim(e, depth+1) {
				return false
			}
		}
		return true
	case *ssa.Parameter:
		// a helper receiving the text: all its call sites must pass trimmed text
		fn := x.Parent()
		idx := -1
		for i, p := range fn.Params {
			if p == x {
				idx = i
			}
		}
		okAll := false
		for _, caller := range fnCallers(fn) {
			okAll = true
			if idx >= len(caller.Call.Args) || !derivedFromTrim(caller.Call.Args[idx], depth+1) {
				return false
			}
		}
		return okAll
	}
	return false
}

var callerIndex map[*ssa.Function][]*ssa.Call

func fnCallers(fn *ssa.Function) []*ssa.Call { return callerIndex[fn] }

func (w *World) buildCallerIndex() {
	callerIndex = map[*ssa.Function][]*ssa.Call{}
	for _, f := range w.allFuncs {
		for _, b := range f.Blocks {
			for _, in := range b.Instrs {
				if c, ok := in.(*ssa.Call); ok {
					if callee := c.Call.StaticCallee(); callee != nil {
						callerIndex[callee] = append(callerIndex[callee], c)
					}
				}
			}
		}
	}
}

func (w *World) textFlowCheck() []flowResult {
	w.buildCallerIndex()
	var out []flowResult
	for _, fn := range w.allFuncs {
		key := w.fnKey(fn)
		if !strings.HasSuffix(key, "(*Ecosystem).NewVersion") && !strings.HasSuffix(key, "(*Ecosystem).NewVersionRange") {
			continue
		}
		if len(fn.Params) < 2 {
			continue
		}
		n := 0
		before := len(out)
		w.rawInputUses(fn, fn.Params[1], map[*ssa.Function]bool{fn: true}, &out, key, &n)
		if len(out) == before {
			out = append(out, flowResult{name: key + ".rawinput#0", fn: key, ok: false, reason: "the input is never used", pos: w.pos(fn.Pos())})
		}
	}
	// user-supplied values: the operands of Compare and the probe of Contains, followed through calls
	user := map[ssa.Value]bool{}
	var work []*ssa.Parameter
	addP := func(p *ssa.Parameter) {
		if !user[p] {
			user[p] = true
			work = append(work, p)
		}
	}
	for _, fn := range w.allFuncs {
		key := w.fnKey(fn)
		if strings.HasSuffix(key, "(*Version).Compare") {
			for _, p := range fn.Params {
				addP(p)
			}
		}
		if strings.HasSuffix(key, "(*VersionRange).Contains") && len(fn.Params) > 1 {
			addP(fn.Params[1])
		}
	}
	for len(work) > 0 {
		p := work[len(work)-1]
		work = work[:len(work)-1]
		if p.Referrers() == nil {
			continue
		}
		for _, ref := range *p.Referrers() {
			c, ok := ref.(*ssa.Call)
			if !ok {
				continue
			}
			callee := c.Call.StaticCallee()
			if callee == nil || !isRepoPkg(pkgOf(callee)) {
				continue
			}
			for i, a := range c.Call.Args {
				if a == p && i < len(callee.Params) {
					addP(callee.Params[i])
				}
			}
		}
	}
	// T2: readers of the stored text of a user-supplied value
	for _, fn := range w.allFuncs {
		key := w.fnKey(fn)
		pk := fn.Pkg
		if pk == nil || strings.HasPrefix(key, "cmd.") || strings.HasPrefix(key, "vers.") {
			continue
		}
		if strings.HasSuffix(key, ").String") || strings.HasSuffix(key, "(*Ecosystem).NewVersion") || strings.HasSuffix(key, "(*Ecosystem).NewVersionRange") {
			continue
		}
		n := 0
		for _, b := range fn.Blocks {
			for _, in := range b.Instrs {
				var typeName string
				var val ssa.Value
				switch x := in.(type) {
				case *ssa.UnOp:
					fa, ok := x.X.(*ssa.FieldAddr)
					if !ok || x.Op != token.MUL {
						continue
					}
					st, nt := structOf(fa.X.Type())
					if st == nil || st.Field(fa.Field).Name() != "original" {
						continue
					}
					if nn, ok := nt.(*types.Named); ok {
						typeName = nn.Obj().Name()
					}
					val = x
				case *ssa.Call:
					f := x.Call.StaticCallee()
					if f == nil || f.Name() != "String" || f.Signature.Recv() == nil || !isRepoPkg(pkgOf(f)) {
						continue
					}
					if len(x.Call.Args) == 0 || !user[x.Call.Args[0]] {
						continue
					}
					if _, nt := structOf(f.Signature.Recv().Type()); nt != nil {
						if nn, ok := nt.(*types.Named); ok {
							typeName = nn.Obj().Name()
						}
					}
					val = x
				default:
					continue
				}
				if typeName != "Version" && typeName != "VersionRange" {
					continue
				}
				n++
				ok := w.storesTrimmed(pk, typeName)
				reason := ""
				if !ok {
					// every use of the read value is a TrimSpace call?
					ok = true
					if val.Referrers() != nil {
						for _, ref := range *val.Referrers() {
							if _, isDbg := ref.(*ssa.DebugRef); isDbg {
								continue
							}
							if _, isTrim := isCallTo(ref, "strings.TrimSpace"); !isTrim {
								ok = false
							}
						}
					}
					if !ok {
						reason = "reads the stored input text (which may carry outer whitespace) without trimming it"
					}
				}
				out = append(out, flowResult{name: fmt.Sprintf("%s.readstext#%d", key, n), fn: key, ok: ok, reason: reason, pos: w.pos(in.Pos())})
			}
		}
	}
	sort.Slice(out, func(i, j int) bool { return out[i].name < out[j].name })
	return out
}

func (w *World) textFlowVCs() []VC {
	var vcs []VC
	for _, r := range w.textFlowCheck() {
		r := r
		vcs = append(vcs, VC{Name: r.name, Prop: "C18", Kind: "readframe", Fn: r.fn, Pos: r.pos, Clause: "the raw input is used only via strings.TrimSpace / the stored text; stored text is read only trimmed",
			Run: func() SolveResult {
				if r.ok {
					return SolveResult{Status: "unsat", Solver: "govc-dataflow"}
				}
				return SolveResult{Status: "sat", Solver: "govc-dataflow", Output: r.reason + " at " + r.pos}
			}})
	}
	return vcs
}

package main

// Assumed contracts of standard-library entry points.  Every symbol declared
// here is an *assumption*: it is listed in the evidence (trusted_base) and
// audited against the real library by `govc audit`.

import (
	"fmt"
	"go/types"
	"strings"

	"golang.org/x/tools/go/ssa"
)

// libCall declares (once) and applies an uninterpreted library function.
func (e *Exec) libCall(name string, argSorts []string, resSort string, args []Term) Term {
	return e.g.libApp(name, argSorts, resSort, args)
}

func (g *Gen) libApp(name string, argSorts []string, resSort string, args []Term) Term {
	sym := "L_" + sanitize(name)
	if !g.funSeen[sym] {
		g.funSeen[sym] = true
		g.libs[name] = true
		g.declare(fmt.Sprintf("(declare-fun %s (%s) %s)", sym, strings.Join(argSorts, " "), resSort))
		if ax, ok := libAxioms[name]; ok {
			for _, dep := range ax.deps {
				g.libDep(dep)
			}
			for _, a := range ax.axioms {
				for strings.Contains(a, "@lit:") {
					i := strings.Index(a, "@lit:")
					j := strings.Index(a[i+5:], "@")
					a = a[:i] + g.lit(a[i+5:i+5+j]) + a[i+5+j+1:]
				}
				g.declare(a)
			}
		}
	}
	if len(args) == 0 {
		return sym
	}
	return "(" + sym + " " + strings.Join(args, " ") + ")"
}

// libDep makes sure another library symbol (with its axioms) is declared.
func (g *Gen) libDep(name string) {
	sig, ok := libSigs[name]
	if !ok {
		panic("libDep: no signature for " + name)
	}
	for _, s := range sig.args {
		g.ensureSort(s)
	}
	g.ensureSort(sig.res)
	g.libApp(name, sig.args, sig.res, nil)
}

func (g *Gen) ensureSort(s string) {
	switch s {
	case "L_Str":
		g.sortOf(types.NewSlice(types.Typ[types.String]))
	case "Err":
		g.needErr()
	}
}

type libSig struct {
	args []string
	res  string
}

var libSigs = map[string]libSig{
	"strings.TrimSpace":  {[]string{"Str"}, "Str"},
	"strings.TrimSuffix": {[]string{"Str", "Str"}, "Str"},
	"strings.TrimPrefix": {[]string{"Str", "Str"}, "Str"},
	"strings.HasPrefix":  {[]string{"Str", "Str"}, "Bool"},
	"strings.HasSuffix":  {[]string{"Str", "Str"}, "Bool"},
	"strings.Contains":   {[]string{"Str", "Str"}, "Bool"},
	"strings.Index":      {[]string{"Str", "Str"}, "Int"},
	"strings.IndexAny":   {[]string{"Str", "Str"}, "Int"},
	"strings.TrimLeft":   {[]string{"Str", "Str"}, "Str"},
	"strings.Split":      {[]string{"Str", "Str"}, "L_Str"},
	"strings.SplitN":     {[]string{"Str", "Str", "Int"}, "L_Str"},
	"strings.Fields":     {[]string{"Str"}, "L_Str"},
	"strings.Count":      {[]string{"Str", "Str"}, "Int"},
	"strings.ReplaceAll": {[]string{"Str", "Str", "Str"}, "Str"},
	"strings.Join":       {[]string{"L_Str", "Str"}, "Str"},
	"strings.ToLower":    {[]string{"Str"}, "Str"},
	"strconv.Atoi#0":     {[]string{"Str"}, "Int"},
	"strconv.Atoi#1":     {[]string{"Str"}, "Err"},
	"isdigits":           {[]string{"Str"}, "Bool"},
	"numval":             {[]string{"Str"}, "Int"},
	"isspace":            {[]string{"Int"}, "Bool"},
	"unicode.IsDigit":    {[]string{"Int"}, "Bool"},
	"unicode.IsLetter":   {[]string{"Int"}, "Bool"},
	"unicode.IsSpace":    {[]string{"Int"}, "Bool"},
	"itoa":               {[]string{"Int"}, "Str"},
	"strlex":             {[]string{}, "Bool"},
	"strings.Compare":    {[]string{"Str", "Str"}, "Int"},
	"digdots":            {[]string{"Str"}, "Bool"},
	"strings.Map":        {[]string{"Fn", "Str"}, "Str"},
	"strings.FieldsFunc": {[]string{"Str", "Fn"}, "L_Str"},
	"splitnosep":         {[]string{"Str"}, "Bool"}, // carrier of two cross-function facts (no meaning of its own)
}

type libAx struct {
	deps   []string
	axioms []string
}

// Axioms are sound consequences of the documented behaviour (audited by `govc audit`).
var libAxioms = map[string]libAx{
	// a part of strings.Split(s, p) does not contain p; what TrimSpace(s) contains, s contains (used for the measure of
	// pypi.parseSpecifier's recursion only: pulled in by a function-level `decreases` clause)
	"splitnosep": {[]string{"strings.Split", "strings.Contains", "strings.TrimSpace"}, []string{
		"(assert (forall ((s Str) (p Str) (i Int)) (! (=> (and (> (str_len p) 0) (<= 0 i) (< i (len_L_Str (L_strings_Split s p)))) (not (L_strings_Contains (select (arr_L_Str (L_strings_Split s p)) i) p))) :pattern ((select (arr_L_Str (L_strings_Split s p)) i)))))",
		"(assert (forall ((s Str) (p Str)) (! (=> (L_strings_Contains (L_strings_TrimSpace s) p) (L_strings_Contains s p)) :pattern ((L_strings_Contains (L_strings_TrimSpace s) p)))))",
	}},
	"isdigits": {nil, []string{
		// isdigits(s): s is a non-empty string of ASCII digits
		"(assert (forall ((s Str)) (! (=> (L_isdigits s) (> (str_len s) 0)) :pattern ((L_isdigits s)))))",
		"(assert (forall ((s Str) (i Int)) (! (=> (and (L_isdigits s) (<= 0 i) (< i (str_len s))) (and (<= 48 (str_at s i)) (<= (str_at s i) 57))) :pattern ((L_isdigits s) (str_at s i)))))",
	}},
	"numval": {[]string{"isdigits"}, []string{
		"(assert (forall ((s Str)) (! (=> (L_isdigits s) (>= (L_numval s) 0)) :pattern ((L_numval s)))))",
		// a digit string has value 0 iff all its digits are 0; in particular its first digit is 0
		"(assert (forall ((s Str)) (! (=> (and (L_isdigits s) (= (L_numval s) 0)) (= (str_at s 0) 48)) :pattern ((L_numval s)))))",
		"(assert (forall ((s Str)) (! (=> (and (L_isdigits s) (= (str_len s) 1) (= (str_at s 0) 48)) (= (L_numval s) 0)) :pattern ((L_numval s)))))",
		"(assert (forall ((s Str)) (! (=> (and (L_isdigits s) (not (= (str_at s 0) 48))) (>= (L_numval s) 1)) :pattern ((L_numval s)))))",
	}},
	"digdots": {[]string{"isdigits", "strings.Split"}, []string{
		// digdots(s): every byte of s is an ASCII digit or '.'; splitting such a string at "." yields digit strings (or empty ones)
		"(assert (forall ((s Str) (i Int)) (! (=> (and (L_digdots s) (<= 0 i) (< i (len_L_Str (L_strings_Split s @lit:.@))) (> (str_len (select (arr_L_Str (L_strings_Split s @lit:.@)) i)) 0)) (L_isdigits (select (arr_L_Str (L_strings_Split s @lit:.@)) i))) :pattern ((select (arr_L_Str (L_strings_Split s @lit:.@)) i)))))",
	}},
	"strlex": {[]string{"strings.Compare"}, []string{
		// Go's string order is lexicographic on bytes: the first byte decides when it differs
		"(assert (forall ((a Str) (b Str)) (! (=> (and (> (str_len a) 0) (> (str_len b) 0) (< (str_at a 0) (str_at b 0))) (str_lt a b)) :pattern ((L_strings_Compare a b)))))",
		"(assert (forall ((a Str) (b Str)) (! (=> (and (str_lt a b) (> (str_len a) 0)) (and (> (str_len b) 0) (<= (str_at a 0) (str_at b 0)))) :pattern ((L_strings_Compare a b)))))",
		"(assert (forall ((a Str) (b Str)) (! (=> (and (= (str_len a) 1) (= (str_len b) 1) (= (str_at a 0) (str_at b 0))) (= a b)) :pattern ((L_strings_Compare a b)))))",
	}},
	"strconv.Atoi#0": {[]string{"strconv.Atoi#1"}, []string{
		"(assert (forall ((s Str)) (! (inr64 (L_strconv_Atoi_0 s)) :pattern ((L_strconv_Atoi_0 s)))))",
		// failure returns 0 (documented: the zero value on syntax error; range errors return max/min – we only claim the syntax case through err)
	}},
	"strconv.Atoi#1": {[]string{"strconv.Atoi#0", "numval"}, []string{
		// digit strings of at most 18 digits always parse (they are below 2^63)
		"(assert (forall ((s Str)) (! (=> (and (L_isdigits s) (<= (str_len s) 18)) (= (L_strconv_Atoi_1 s) err_nil)) :pattern ((L_strconv_Atoi_1 s)))))",
		// a successful Atoi of a digit string returns its value
		"(assert (forall ((s Str)) (! (=> (and (L_isdigits s) (= (L_strconv_Atoi_1 s) err_nil)) (= (L_strconv_Atoi_0 s) (L_numval s))) :pattern ((L_strconv_Atoi_1 s)))))",
		"(assert (forall ((s Str)) (! (=> (= (str_len s) 0) (not (= (L_strconv_Atoi_1 s) err_nil))) :pattern ((L_strconv_Atoi_1 s)))))",
	}},
	"strings.TrimSpace": {[]string{"isspace"}, []string{
		"(assert (forall ((s Str)) (! (= (L_strings_TrimSpace (L_strings_TrimSpace s)) (L_strings_TrimSpace s)) :pattern ((L_strings_TrimSpace s)))))",
		"(assert (forall ((s Str)) (! (<= (str_len (L_strings_TrimSpace s)) (str_len s)) :pattern ((L_strings_TrimSpace s)))))",
		"(assert (forall ((s Str)) (! (=> (> (str_len (L_strings_TrimSpace s)) 0) (and (not (L_isspace (str_at (L_strings_TrimSpace s) 0))) (not (L_isspace (str_at (L_strings_TrimSpace s) (- (str_len (L_strings_TrimSpace s)) 1)))))) :pattern ((L_strings_TrimSpace s)))))",
		"(assert (forall ((s Str)) (! (=> (and (> (str_len s) 0) (not (L_isspace (str_at s 0))) (not (L_isspace (str_at s (- (str_len s) 1))))) (= (L_strings_TrimSpace s) s)) :pattern ((L_strings_TrimSpace s)))))",
		"(assert (forall ((s Str)) (! (=> (= (str_len s) 0) (= (L_strings_TrimSpace s) s)) :pattern ((L_strings_TrimSpace s)))))",
	}},
	"isspace": {nil, []string{
		// ASCII white space per unicode.IsSpace on Latin-1: \t \n \v \f \r space, 0x85, 0xA0 (bytes >= 0x80 are parts of multi-byte runes; TrimSpace decodes runes)
		"(assert (forall ((c Int)) (! (=> (and (<= 0 c) (< c 128)) (= (L_isspace c) (or (= c 32) (and (<= 9 c) (<= c 13))))) :pattern ((L_isspace c)))))",
	}},
	"strings.HasPrefix": {nil, []string{
		"(assert (forall ((s Str) (p Str)) (! (= (L_strings_HasPrefix s p) (and (<= (str_len p) (str_len s)) (= (str_sub s 0 (str_len p)) p))) :pattern ((L_strings_HasPrefix s p)))))",
	}},
	"strings.HasSuffix": {nil, []string{
		"(assert (forall ((s Str) (p Str)) (! (= (L_strings_HasSuffix s p) (and (<= (str_len p) (str_len s)) (= (str_sub s (- (str_len s) (str_len p)) (str_len s)) p))) :pattern ((L_strings_HasSuffix s p)))))",
	}},
	"strings.Split": {nil, []string{
		"(assert (forall ((s Str) (p Str)) (! (=> (> (str_len p) 0) (and (>= (len_L_Str (L_strings_Split s p)) 1) (= (off_L_Str (L_strings_Split s p)) 0) (not (nil_L_Str (L_strings_Split s p))))) :pattern ((L_strings_Split s p)))))",
	}},
	"strings.SplitN": {nil, []string{
		"(assert (forall ((s Str) (p Str) (n Int)) (! (=> (and (> (str_len p) 0) (> n 0)) (and (>= (len_L_Str (L_strings_SplitN s p n)) 1) (<= (len_L_Str (L_strings_SplitN s p n)) n) (= (off_L_Str (L_strings_SplitN s p n)) 0) (not (nil_L_Str (L_strings_SplitN s p n))))) :pattern ((L_strings_SplitN s p n)))))",
	}},
	"strings.Fields": {nil, []string{
		"(assert (forall ((s Str)) (! (and (>= (len_L_Str (L_strings_Fields s)) 0) (= (off_L_Str (L_strings_Fields s)) 0)) :pattern ((L_strings_Fields s)))))",
		"(assert (forall ((s Str) (i Int)) (! (=> (and (<= 0 i) (< i (len_L_Str (L_strings_Fields s)))) (> (str_len (select (arr_L_Str (L_strings_Fields s)) i)) 0)) :pattern ((select (arr_L_Str (L_strings_Fields s)) i)))))",
	}},
	"strings.Join": {nil, []string{
		"(assert (forall ((s L_Str) (p Str)) (! (=> (= (len_L_Str s) 1) (= (L_strings_Join s p) (select (arr_L_Str s) (off_L_Str s)))) :pattern ((L_strings_Join s p)))))",
		"(assert (forall ((s L_Str) (p Str)) (! (=> (= (len_L_Str s) 2) (= (L_strings_Join s p) (str_cat (select (arr_L_Str s) (off_L_Str s)) (str_cat p (select (arr_L_Str s) (+ (off_L_Str s) 1)))))) :pattern ((L_strings_Join s p)))))",
		"(assert (forall ((s L_Str) (p Str)) (! (=> (= (len_L_Str s) 0) (= (str_len (L_strings_Join s p)) 0)) :pattern ((L_strings_Join s p)))))",
	}},
	"strings.Index": {nil, []string{
		"(assert (forall ((s Str) (p Str)) (! (or (= (L_strings_Index s p) (- 1)) (and (<= 0 (L_strings_Index s p)) (<= (+ (L_strings_Index s p) (str_len p)) (str_len s)))) :pattern ((L_strings_Index s p)))))",
	}},
	// TrimLeft(s, cutset) = s[k:] where k is the first position whose byte is not in the cutset (single-byte cutsets are
	// characterised exactly; for longer cutsets only the shape is known)
	"strings.TrimLeft": {nil, []string{
		"(declare-fun trimleft_k (Str Str) Int)",
		"(assert (forall ((s Str) (p Str)) (! (and (<= 0 (trimleft_k s p)) (<= (trimleft_k s p) (str_len s)) (= (L_strings_TrimLeft s p) (str_sub s (trimleft_k s p) (str_len s)))) :pattern ((L_strings_TrimLeft s p)))))",
		"(assert (forall ((s Str) (p Str)) (! (=> (= (str_len p) 1) (=> (< (trimleft_k s p) (str_len s)) (not (= (str_at s (trimleft_k s p)) (str_at p 0))))) :pattern ((L_strings_TrimLeft s p)))))",
		"(assert (forall ((s Str) (p Str) (i Int)) (! (=> (and (= (str_len p) 1) (<= 0 i) (< i (trimleft_k s p))) (= (str_at s i) (str_at p 0))) :pattern ((L_strings_TrimLeft s p) (str_at s i)))))",
	}},
	"strings.IndexAny": {nil, []string{
		"(assert (forall ((s Str) (p Str)) (! (and (<= (- 1) (L_strings_IndexAny s p)) (< (L_strings_IndexAny s p) (ite (= (str_len s) 0) 0 (str_len s)))) :pattern ((L_strings_IndexAny s p)))))",
	}},
	"strings.LastIndex": {nil, []string{
		"(assert (forall ((s Str) (p Str)) (! (or (= (L_strings_LastIndex s p) (- 1)) (and (<= 0 (L_strings_LastIndex s p)) (<= (+ (L_strings_LastIndex s p) (str_len p)) (str_len s)))) :pattern ((L_strings_LastIndex s p)))))",
	}},
	"strings.Compare": {nil, []string{
		"(assert (forall ((a Str) (b Str)) (! (= (L_strings_Compare a b) (ite (= a b) 0 (ite (str_lt a b) (- 1) 1))) :pattern ((L_strings_Compare a b)))))",
	}},
	"strings.Count": {nil, []string{
		"(assert (forall ((s Str) (p Str)) (! (>= (L_strings_Count s p) 0) :pattern ((L_strings_Count s p)))))",
	}},
	"strings.ToLower": {nil, []string{
		"(assert (forall ((s Str)) (! (= (L_strings_ToLower (L_strings_ToLower s)) (L_strings_ToLower s)) :pattern ((L_strings_ToLower s)))))",
	}},
	"strings.TrimPrefix": {nil, []string{
		"(assert (forall ((s Str) (p Str)) (! (<= (str_len (L_strings_TrimPrefix s p)) (str_len s)) :pattern ((L_strings_TrimPrefix s p)))))",
	}},
	"strings.TrimSuffix": {nil, []string{
		"(assert (forall ((s Str) (p Str)) (! (<= (str_len (L_strings_TrimSuffix s p)) (str_len s)) :pattern ((L_strings_TrimSuffix s p)))))",
	}},
	"(time.Time).Compare": {nil, []string{
		"(assert (forall ((a O_time_Time) (b O_time_Time)) (! (and (<= (- 1) (L__time_Time__Compare a b)) (<= (L__time_Time__Compare a b) 1) (= (L__time_Time__Compare a b) (- (L__time_Time__Compare b a)))) :pattern ((L__time_Time__Compare a b)))))",
		"(assert (forall ((a O_time_Time)) (! (= (L__time_Time__Compare a a) 0) :pattern ((L__time_Time__Compare a a)))))",
		"(assert (forall ((a O_time_Time) (b O_time_Time) (c O_time_Time)) (! (=> (and (<= (L__time_Time__Compare a b) 0) (<= (L__time_Time__Compare b c) 0)) (and (<= (L__time_Time__Compare a c) 0) (=> (or (< (L__time_Time__Compare a b) 0) (< (L__time_Time__Compare b c) 0)) (< (L__time_Time__Compare a c) 0)))) :pattern ((L__time_Time__Compare a b) (L__time_Time__Compare b c)))))",
	}},
	"unicode.IsDigit": {nil, []string{
		"(assert (forall ((c Int)) (! (=> (and (<= 0 c) (< c 256)) (= (L_unicode_IsDigit c) (and (<= 48 c) (<= c 57)))) :pattern ((L_unicode_IsDigit c)))))",
	}},
	"unicode.IsLetter": {nil, []string{
		"(assert (forall ((c Int)) (! (=> (and (<= 0 c) (< c 128)) (= (L_unicode_IsLetter c) (or (and (<= 65 c) (<= c 90)) (and (<= 97 c) (<= c 122))))) :pattern ((L_unicode_IsLetter c)))))",
	}},
	"unicode.IsSpace": {nil, []string{
		"(assert (forall ((c Int)) (! (=> (and (<= 0 c) (< c 128)) (= (L_unicode_IsSpace c) (or (= c 32) (and (<= 9 c) (<= c 13))))) :pattern ((L_unicode_IsSpace c)))))",
	}},
}

func (g *Gen) needRunes() {
	if g.funSeen["rune_count"] {
		return
	}
	g.funSeen["rune_count"] = true
	g.libs["range-over-string (rune_count/pos/val)"] = true
	g.declare("(declare-fun rune_count (Str) Int)")
	g.declare("(declare-fun rune_pos (Str Int) Int)")
	g.declare("(declare-fun rune_val (Str Int) Int)")
	g.declare("(assert (forall ((s Str)) (! (and (<= 0 (rune_count s)) (<= (rune_count s) (str_len s))) :pattern ((rune_count s)))))")
	g.declare("(assert (forall ((s Str) (k Int)) (! (=> (and (<= 0 k) (< k (rune_count s))) (and (<= k (rune_pos s k)) (< (rune_pos s k) (str_len s)) (<= 0 (rune_val s k)) (<= (rune_val s k) 1114111))) :pattern ((rune_pos s k)))))")
	g.declare("(assert (forall ((s Str) (k Int)) (! (=> (and (<= 0 k) (< k (rune_count s)) (< (str_at s (rune_pos s k)) 128)) (= (rune_val s k) (str_at s (rune_pos s k)))) :pattern ((rune_val s k)))))")
	g.declare("(assert (forall ((s Str) (k Int)) (! (=> (and (<= 0 k) (< k (rune_count s)) (>= (str_at s (rune_pos s k)) 128)) (>= (rune_val s k) 128)) :pattern ((rune_val s k)))))")
	g.declare("(assert (forall ((s Str) (k Int)) (! (=> (and (<= 0 k) (< (+ k 1) (rune_count s))) (< (rune_pos s k) (rune_pos s (+ k 1)))) :pattern ((rune_pos s (+ k 1))))))")
	g.declare("(assert (forall ((s Str)) (! (=> (> (str_len s) 0) (and (> (rune_count s) 0) (= (rune_pos s 0) 0))) :pattern ((rune_count s)))))")
	// every byte belongs to exactly one rune of the iteration (rune_of); a rune whose first byte is ASCII is that single byte
	g.declare("(declare-fun rune_of (Str Int) Int)")
	g.declare("(assert (forall ((s Str) (i Int)) (! (=> (and (<= 0 i) (< i (str_len s))) (and (<= 0 (rune_of s i)) (< (rune_of s i) (rune_count s)) (<= (rune_pos s (rune_of s i)) i) (>= (rune_val s (rune_of s i)) 0) (=> (< (str_at s (rune_pos s (rune_of s i))) 128) (= (rune_pos s (rune_of s i)) i)) (=> (< (str_at s i) 128) (= (rune_pos s (rune_of s i)) i)))) :pattern ((str_at s i)))))")
}

// callLib models a call to a function outside the repository.
func (e *Exec) callLib(x *ssa.Call, f *ssa.Function) {
	name := f.String()
	if o := f.Origin(); o != nil {
		name = o.String()
	}
	cc := &x.Call
	sig := f.Signature
	switch name {
	case "fmt.Errorf", "errors.New":
		e.g.needErr()
		for _, a := range cc.Args {
			e.term(a)
		}
		t := e.havoc("err", "Err", false)
		e.assume(not(eq(t, "err_nil")))
		e.setVal(x, val{t: t})
		return
	case "fmt.Sprintf":
		e.setVal(x, val{t: e.sprintf(x)})
		return
	case "fmt.Fprintf":
		s := e.sprintfArgs(cc.Args[1], cc.Args[2], x)
		e.root().outputs = append(e.root().outputs, outputEvent{reach: e.reach[e.curBlock], text: s, pos: x.Pos()})
		e.setVal(x, val{tup: []val{{t: "0"}, {t: e.g.zero(sig.Results().At(1).Type())}}})
		return
	case "os.Exit":
		e.root().exits = append(e.root().exits, outputEvent{reach: e.reach[e.curBlock], text: e.term(cc.Args[0]), pos: x.Pos()})
		return
	case "(*strings.Builder).WriteRune", "(*strings.Builder).WriteString", "(*strings.Builder).WriteByte":
		b := e.value(cc.Args[0])
		if b.lv == nil || b.lv.cell == nil || len(b.lv.path) != 0 {
			e.unsupported("strings.Builder not a plain local")
			return
		}
		var add Term
		if name == "(*strings.Builder).WriteString" {
			add = e.term(cc.Args[1])
		} else {
			add = e.libCall("string_of_rune", []string{"Int"}, "Str", []Term{e.term(cc.Args[1])})
		}
		e.cellSet(b.lv.cell, "(str_cat "+e.cellGet(b.lv.cell)+" "+add+")")
		e.setVal(x, val{tup: []val{{t: "0"}, {t: "err_nil"}}})
		e.g.needErr()
		return
	case "(*strings.Builder).Len", "(*strings.Builder).String", "(*strings.Builder).Reset":
		b := e.value(cc.Args[0])
		if b.lv == nil || b.lv.cell == nil || len(b.lv.path) != 0 {
			e.unsupported("strings.Builder not a plain local")
			return
		}
		switch name {
		case "(*strings.Builder).Len":
			e.defVal(x, "(str_len "+e.cellGet(b.lv.cell)+")")
		case "(*strings.Builder).String":
			e.defVal(x, e.cellGet(b.lv.cell))
		default:
			e.cellSet(b.lv.cell, e.g.lit(""))
		}
		return
	case "regexp.MustCompile":
		pat, ok := constString(cc.Args[0])
		if !ok {
			e.oblige("mustcompile", "false", x.Pos())
			e.setVal(x, val{t: e.havoc("re", e.g.sortOf(x.Type()), false)})
			return
		}
		e.setVal(x, val{t: e.g.rxConst(pat, x.Type())})
		return
	case "(*regexp.Regexp).FindStringSubmatch", "(*regexp.Regexp).MatchString":
		e.regexCall(x, name)
		return
	case "strconv.Atoi":
		s := e.term(cc.Args[0])
		e.g.libDep("strconv.Atoi#0")
		v := e.def(x.Name()+"_0", "Int", "(L_strconv_Atoi_0 "+s+")")
		er := e.def(x.Name()+"_1", "Err", "(L_strconv_Atoi_1 "+s+")")
		e.setVal(x, val{tup: []val{{t: v}, {t: er}}})
		return
	case "strconv.Itoa":
		// the decimal text of an int: the same symbol the Sprintf model and the contract builtin itoa use
		e.g.libDep("itoa")
		e.setVal(x, val{t: e.def(x.Name()+"_0", "Str", "(L_itoa "+e.term(cc.Args[0])+")")})
		return
	case "slices.SortFunc":
		e.sortFunc(x)
		return
	}
	// generic: deterministic uninterpreted function of its arguments
	var args []Term
	var sorts []string
	for _, a := range cc.Args {
		v := e.value(a)
		if v.lv != nil && v.lv.cell != nil {
			// pointer to a local passed to library code (e.g. big.Int receivers): treat content as value
			args = append(args, e.load(v.lv))
			sorts = append(sorts, e.g.sortOf(v.lv.cell.typ))
			continue
		}
		if v.fn != nil && len(v.clo) == 0 {
			// a function literal without captured variables: an opaque constant
			args = append(args, e.fnConst(v.fn))
			sorts = append(sorts, "Fn")
			continue
		}
		if v.fn != nil || v.t == "" && len(v.tup) == 0 && v.lv == nil && v.cell == nil {
			e.unsupported("function-valued argument to " + name)
			return
		}
		args = append(args, e.asTerm(v, a.Type()))
		sorts = append(sorts, e.g.sortOf(a.Type()))
	}
	n := sig.Results().Len()
	var out []Term
	for i := 0; i < n; i++ {
		nm := name
		if n > 1 {
			nm = fmt.Sprintf("%s#%d", name, i)
		}
		rt := sig.Results().At(i).Type()
		t := e.def(fmt.Sprintf("%s_%d", x.Name(), i), e.g.sortOf(rt), e.libCall(nm, sorts, e.g.sortOf(rt), args))
		if inv := e.typeInv(rt, t); inv != "true" {
			e.assume(implies(e.reach[e.curBlock], inv))
		}
		out = append(out, t)
	}
	if n == 0 {
		e.setVal(x, val{})
		return
	}
	e.setVal(x, resultVals(out))
}

type outputEvent struct {
	reach Term
	text  Term
	pos   interface{}
}

// sprintf models fmt.Sprintf with a constant format as concatenation.
func (e *Exec) sprintf(x *ssa.Call) Term {
	return e.sprintfArgs(x.Call.Args[0], x.Call.Args[1], x)
}

func (e *Exec) sprintfArgs(fmtArg, sliceArg ssa.Value, x *ssa.Call) Term {
	format, ok := constString(fmtArg)
	args := e.term(sliceArg) // L_Any
	if !ok {
		return e.libCall("fmt.Sprintf.dyn", []string{"Str", "L_Any"}, "Str", []Term{e.term(fmtArg), args})
	}
	argAt := func(i int) Term { return fmt.Sprintf("(select (arr_L_Any %s) (+ (off_L_Any %s) %d))", args, args, i) }
	var parts []Term
	lit := ""
	flush := func() {
		if lit != "" {
			parts = append(parts, e.g.lit(lit))
			lit = ""
		}
	}
	ai := 0
	for i := 0; i < len(format); i++ {
		c := format[i]
		if c != '%' || i+1 >= len(format) {
			lit += string(c)
			continue
		}
		i++
		switch format[i] {
		case '%':
			lit += "%"
		case 's', 'v', 'd', 'q', 't', 'w':
			flush()
			a := argAt(ai)
			ai++
			e.g.sortOf(types.NewInterfaceType(nil, nil))
			switch format[i] {
			case 's':
				parts = append(parts, ite("((_ is any_str) "+a+")", "(str_of "+a+")", e.libCall("fmt.any", []string{"Any"}, "Str", []Term{a})))
			case 'd':
				parts = append(parts, ite("((_ is any_int) "+a+")", e.libCall("itoa", []string{"Int"}, "Str", []Term{"(int_of " + a + ")"}), e.libCall("fmt.any", []string{"Any"}, "Str", []Term{a})))
			case 't':
				parts = append(parts, ite("((_ is any_bool) "+a+")", ite("(bool_of "+a+")", e.g.lit("true"), e.g.lit("false")), e.libCall("fmt.any", []string{"Any"}, "Str", []Term{a})))
			case 'q':
				parts = append(parts, e.libCall("fmt.quote", []string{"Any"}, "Str", []Term{a}))
			default:
				parts = append(parts, ite("((_ is any_str) "+a+")", "(str_of "+a+")", e.libCall("fmt.any", []string{"Any"}, "Str", []Term{a})))
			}
		default:
			return e.libCall("fmt.Sprintf.dyn", []string{"Str", "L_Any"}, "Str", []Term{e.g.lit(format), args})
		}
	}
	flush()
	if len(parts) == 0 {
		return e.g.lit("")
	}
	r := parts[len(parts)-1]
	for i := len(parts) - 2; i >= 0; i-- {
		r = "(str_cat " + parts[i] + " " + r + ")"
	}
	return r
}

func (g *Gen) ifaceAxioms(sym, method string, i int, sorts []string, rsort string) {
	// interface contracts (univers.Version / VersionRange / Ecosystem) are added by the property drivers
	if h := g.ifaceHook; h != nil {
		h(sym, method, i, sorts, rsort)
	}
}

func (e *Exec) dynCall(x *ssa.Call, fv val) {
	// function value not known statically: a case split over the function constants created by this
	// activation (closures stored in local maps/variables); anything else is an uninterpreted application
	cc := &x.Call
	fnT := e.asTerm(fv, cc.Value.Type())
	if r, ok := e.dynSplit(x, fnT); ok {
		e.setVal(x, r)
		return
	}
	args := []Term{fnT}
	sorts := []string{"Fn"}
	for _, a := range cc.Args {
		args = append(args, e.term(a))
		sorts = append(sorts, e.g.sortOf(a.Type()))
	}
	sig := cc.Signature()
	n := sig.Results().Len()
	var out []Term
	for i := 0; i < n; i++ {
		rt := sig.Results().At(i).Type()
		nm := fmt.Sprintf("apply%d_%s#%d", len(args), sanitize(strings.Join(sorts, "_")), i)
		t := e.def(fmt.Sprintf("%s_%d", x.Name(), i), e.g.sortOf(rt), e.libCall(nm, sorts, e.g.sortOf(rt), args))
		if inv := e.typeInv(rt, t); inv != "true" {
			e.assume(implies(e.reach[e.curBlock], inv))
		}
		out = append(out, t)
	}
	e.root().dynCalls = append(e.root().dynCalls, dynCallInfo{fn: fnT, args: args[1:], results: out, reach: e.reach[e.curBlock]})
	if n == 0 {
		e.setVal(x, val{})
		return
	}
	e.setVal(x, resultVals(out))
}

// dynSplit: result_i = ite(fn == fn_c1, body_c1(args), ite(fn == fn_c2, …, apply(fn,args)))
func (e *Exec) dynSplit(x *ssa.Call, fnT Term) (val, bool) {
	cc := &x.Call
	r := e.root()
	if len(r.closures) == 0 {
		return val{}, false
	}
	var args []Term
	var sorts []string
	for _, a := range cc.Args {
		args = append(args, e.term(a))
		sorts = append(sorts, e.g.sortOf(a.Type()))
	}
	sig := cc.Signature()
	n := sig.Results().Len()
	// fallback: uninterpreted application
	acc := make([]Term, n)
	for i := 0; i < n; i++ {
		rt := sig.Results().At(i).Type()
		nm := fmt.Sprintf("apply%d_%s#%d", len(args)+1, sanitize(strings.Join(append([]string{"Fn"}, sorts...), "_")), i)
		acc[i] = e.libCall(nm, append([]string{"Fn"}, sorts...), e.g.sortOf(rt), append([]Term{fnT}, args...))
	}
	used := 0
	for _, f := range r.closures {
		if !types.Identical(f.Signature.Params(), sig.Params()) || !types.Identical(f.Signature.Results(), sig.Results()) {
			continue
		}
		var res []Term
		if f.Parent() != nil && e.w.contractOf(f) == nil && len(e.w.loopsOf(f).loops) == 0 && len(f.FreeVars) == 0 {
			// small anonymous function without a contract: its body is used directly (exact)
			sub := newExec(e.g, e.w, f, fmt.Sprintf("%scl%d_", e.pfx, used))
			sub.noObl = true
			sub.run(args)
			if e.g.unsupported != "" {
				return val{}, false
			}
			res, _ = sub.resultTerms()
		} else {
			res = e.g.useCallee(f, args)
		}
		used++
		for i := 0; i < n && i < len(res); i++ {
			acc[i] = ite(eq(fnT, e.fnConst(f)), res[i], acc[i])
		}
	}
	if used == 0 {
		return val{}, false
	}
	var out []Term
	for i := 0; i < n; i++ {
		rt := sig.Results().At(i).Type()
		t := e.def(fmt.Sprintf("%s_%d", x.Name(), i), e.g.sortOf(rt), acc[i])
		if inv := e.typeInv(rt, t); inv != "true" && e.parent == nil {
			e.assume(implies(e.reach[e.curBlock], inv))
		}
		out = append(out, t)
	}
	if n == 0 {
		return val{}, true
	}
	return resultVals(out), true
}

type dynCallInfo struct {
	fn      Term
	args    []Term
	results []Term
	reach   Term
}

// sortFunc models slices.SortFunc(s, cmp): the elements of s are permuted in place.  Under value semantics the
// SSA name of s is rebound to a slice of the same length whose contents are unknown here; the C07 driver adds
// the sorted-permutation contract (which requires cmp to be a total preorder).
func (e *Exec) sortFunc(x *ssa.Call) {
	arg := x.Call.Args[0]
	old := e.term(arg)
	s := e.g.sortOf(arg.Type())
	nv := e.havoc("sorted", s, false)
	e.assume(implies(e.reach[e.curBlock], fmt.Sprintf("(and (= (len_%s %s) (len_%s %s)) (= (off_%s %s) 0) (= (nil_%s %s) (nil_%s %s)))", s, nv, s, old, s, nv, s, nv, s, old)))
	if e.root().rebinds == nil {
		e.root().rebinds = map[ssa.Value][]rebind{}
	}
	e.root().rebinds[arg] = append(e.root().rebinds[arg], rebind{block: e.curBlock, v: val{t: nv}})
	k := len(e.root().sorts)
	e.root().sorts = append(e.root().sorts, sortEvent{before: old, after: nv, cmp: x.Call.Args[1], reach: e.reach[e.curBlock], sort_: s})
	e.setVal(x, val{})

	// ASSUMED library contract of slices.SortFunc (listed in the trusted base): the result is a permutation of the
	// input (sortperm<k> is the permutation: after[i] = before[sortperm(i)], injective on [0,n)) ...
	perm := fmt.Sprintf("sortperm%d", k)
	if !e.g.funSeen[perm] {
		e.g.funSeen[perm] = true
		e.g.declare(fmt.Sprintf("(declare-fun %s (Int) Int)", perm))
	}
	n := fmt.Sprintf("(len_%s %s)", s, old)
	at := func(sl Term, i string) Term {
		return fmt.Sprintf("(select (arr_%s %s) (+ (off_%s %s) %s))", s, sl, s, sl, i)
	}
	r := e.reach[e.curBlock]
	e.assume(implies(r, fmt.Sprintf("(forall ((i Int)) (! (=> (and (<= 0 i) (< i %s)) (and (<= 0 (%s i)) (< (%s i) %s) (= %s %s))) :pattern ((%s i))))", n, perm, perm, n, at(nv, "i"), at(old, "("+perm+" i)"), perm)))
	e.assume(implies(r, fmt.Sprintf("(forall ((i Int) (j Int)) (! (=> (and (<= 0 i) (< i %s) (<= 0 j) (< j %s) (= (%s i) (%s j))) (= i j)) :pattern ((%s i) (%s j))))", n, n, perm, perm, perm, perm)))
	// ... a permutation has an inverse: the element that was at position m is at position sortinv(m) afterwards
	inv := fmt.Sprintf("sortinv%d", k)
	if !e.g.funSeen[inv] {
		e.g.funSeen[inv] = true
		e.g.declare(fmt.Sprintf("(declare-fun %s (Int) Int)", inv))
	}
	e.assume(implies(r, fmt.Sprintf("(forall ((m Int)) (! (=> (and (<= 0 m) (< m %s)) (and (<= 0 (%s m)) (< (%s m) %s) (= (%s (%s m)) m))) :pattern ((%s m))))", n, inv, inv, n, perm, inv, inv)))
	// instances the solver does not find by itself: the permutation facts at the goal constants, and the declared
	// invariants of the loops that built the slice at the images of those constants
	if e.parent == nil {
		root := e.root()
		for _, c := range root.goalSk {
			pc := "(" + perm + " " + c + ")"
			root.extraInst = append(root.extraInst, pc)
			e.assume(implies(and(r, "(<= 0 "+c+")", "(< "+c+" "+n+")"), fmt.Sprintf("(and (<= 0 %s) (< %s %s) (= %s %s))", pc, pc, n, at(nv, c), at(old, pc))))
		}
		for _, rec := range root.invRecords {
			if rec.head != e.curBlock && rec.head.Dominates(e.curBlock) {
				e.root().reinst = true
				e.assume(implies(rec.reach, e.invExpr(rec.expr, rec.head, rec.cur, true)))
				e.root().reinst = false
			}
		}
	}
	e.g.libs["slices.SortFunc (result is a permutation of the input, non-decreasing under the comparison; the comparison must be a total preorder: C01)"] = true
	// ... and sorted: for i < j the comparison does not put after[i] above after[j].  The comparison is recognised when it is
	// the method Compare of the element type (method value or thunk); other comparison functions get no order fact.
	elem := arg.Type().Underlying().(*types.Slice).Elem()
	if cmp := e.sortCompare(x.Call.Args[1], elem); cmp != nil {
		e.assume(implies(r, fmt.Sprintf("(forall ((i Int) (j Int)) (! (=> (and (<= 0 i) (< i j) (< j %s)) (<= %s 0)) :pattern ((%s i) (%s j))))", n, cmp(at(nv, "i"), at(nv, "j")), perm, perm)))
	}
}

// sortCompare returns the term builder for cmp(a, b) when cmp is the Compare method of the element type.
func (e *Exec) sortCompare(cmp ssa.Value, elem types.Type) func(a, b Term) Term {
	f, ok := cmp.(*ssa.Function)
	if mc, isClosure := cmp.(*ssa.MakeClosure); isClosure && !ok {
		f, ok = mc.Fn.(*ssa.Function)
	}
	if ok && f.Parent() != nil && len(f.FreeVars) == 0 && len(f.Params) == 2 && e.w.contractOf(f) != nil {
		// a comparison literal without captured variables that has a contract of its own (//@ func Outer$k): the order
		// fact is stated with its function symbol, the contract says what the comparison computes
		return func(a, b Term) Term { return e.g.useCallee(f, []Term{a, b})[0] }
	}
	if !ok || !strings.HasSuffix(strings.TrimSuffix(f.Name(), "$thunk"), "Compare") && !strings.Contains(f.Name(), "Compare$") {
		return nil
	}
	es := e.g.sortOf(elem)
	if _, isTP := elem.(*types.TypeParam); isTP || types.IsInterface(elem) {
		name := fmt.Sprintf("M_%s_Compare", sanitize(es))
		if !e.g.funSeen[name] {
			e.g.funSeen[name] = true
			e.g.declare(fmt.Sprintf("(declare-fun %s (%s %s) Int)", name, es, es))
			e.g.ifaceAxioms(name, "Compare", 0, []string{es, es}, "Int")
		}
		return func(a, b Term) Term { return "(" + name + " " + a + " " + b + ")" }
	}
	return nil
}

type sortEvent struct {
	before, after Term
	cmp           ssa.Value
	reach         Term
	sort_         string
}

package main

// C03 bounded API obligations, per ecosystem: through the real NewVersion+Compare,
//   numeric      - plain dotted-numeric versions with the same number of components compare as their integer tuples
//                  (every component count 1-5 the ecosystem accepts; values from the boundary set of the property),
//   pre-release  - adding one of the ecosystem's pre-release markers makes the version strictly older,
//   post-release - adding one of its post-release / revision markers makes it strictly newer.
// The contracts prove the struct-level rules for all values; this layer adds the text-to-fields step (regexp parsers
// are outside the contracts) and the ecosystems whose comparison loops govc cannot summarise.

import (
	"fmt"
	"strings"
	"sync"
	"time"
)

const numOrderHarness = `package PKG

import (
	"fmt"
	"strings"
	"testing"
)

func TestVerifReplay(t *testing.T) {
	e := &Ecosystem{}
	vals := []int{0, 1, 2, 9, 10, 11, 99, 100, 999, 1000, 65535, 2147483647}
	pre := []string{PRE}
	post := []string{POST}
	prefix := PREFIX
	sgn := func(x int) int {
		if x < 0 {
			return -1
		}
		if x > 0 {
			return 1
		}
		return 0
	}
	text := func(t []int) string {
		var p []string
		for _, x := range t {
			p = append(p, fmt.Sprint(x))
		}
		return prefix + strings.Join(p, ".")
	}
	type res struct {
		n   int
		bad string
	}
	out := map[string]*res{"numeric": {}, "pre-release": {}, "post-release": {}}
	fail := func(k, msg string) {
		if out[k].bad == "" {
			out[k].bad = msg
		}
	}
	accepted := 0
	for comps := 1; comps <= MAXCOMPS; comps++ {
		// tuples: every value in every position against a fixed background, plus neighbours
		var tuples [][]int
		bases := [][]int{{1, 2, 3, 4, 5}, {0, 0, 0, 0, 0}, {10, 9, 11, 2, 1}}
		for _, b := range bases {
			for pos := 0; pos < comps; pos++ {
				for _, v := range vals {
					tp := append([]int{}, b[:comps]...)
					tp[pos] = v
					tuples = append(tuples, tp)
				}
			}
		}
		type pv struct {
			t []int
			v *Version
		}
		var parsed []pv
		for _, tp := range tuples {
			if v, err := e.NewVersion(text(tp)); err == nil {
				parsed = append(parsed, pv{tp, v})
			}
		}
		if len(parsed) == 0 {
			continue
		}
		accepted++
		if len(parsed) != len(tuples) {
			for _, tp := range tuples {
				if _, err := e.NewVersion(text(tp)); err != nil && !SKIPYEAR(tp) {
					fail("numeric", fmt.Sprintf("%d-component versions are accepted but %q is rejected: %v", comps, text(tp), err))
					break
				}
			}
		}
		for _, a := range parsed {
			for _, b := range parsed {
				if SKIPYEAR(a.t) != SKIPYEAR(b.t) {
					continue
				}
				want := 0
				for i := range a.t {
					if a.t[i] != b.t[i] {
						want = sgn(a.t[i] - b.t[i])
						break
					}
				}
				out["numeric"].n++
				if got := sgn(a.v.Compare(b.v)); got != want {
					fail("numeric", fmt.Sprintf("Compare(%q, %q) = %d, the integer tuples compare %d", text(a.t), text(b.t), got, want))
				}
			}
		}
		// markers on a few bases of this arity
		for _, a := range parsed {
			if SKIPYEAR(a.t) || !ALLBASES && len(parsed) > 40 && (a.t[0]+a.t[len(a.t)-1])%3 != 0 {
				continue
			}
			for _, m := range pre {
				if v, err := e.NewVersion(text(a.t) + m); err == nil {
					out["pre-release"].n++
					if v.Compare(a.v) >= 0 || a.v.Compare(v) <= 0 {
						fail("pre-release", fmt.Sprintf("%q is not older than %q (Compare = %d)", text(a.t)+m, text(a.t), v.Compare(a.v)))
					}
				}
			}
			for _, m := range post {
				if v, err := e.NewVersion(text(a.t) + m); err == nil {
					out["post-release"].n++
					if v.Compare(a.v) <= 0 || a.v.Compare(v) >= 0 {
						fail("post-release", fmt.Sprintf("%q is not newer than %q (Compare = %d)", text(a.t)+m, text(a.t), v.Compare(a.v)))
					}
				}
			}
		}
	}
	if accepted == 0 {
		fail("numeric", "no plain dotted-numeric version is accepted")
	}
	for _, k := range []string{"numeric", "pre-release", "post-release"} {
		r := out[k]
		switch {
		case r.bad != "":
			fmt.Printf("VERIF-C03\t%s\tFAIL\t%s\n", k, r.bad)
		default:
			fmt.Printf("VERIF-C03\t%s\tok\tevals=%d\n", k, r.n)
		}
	}
	fmt.Println("VERIF-DONE")
}
`

type numOrderEco struct {
	pkg       string
	prefix    string
	pre, post []string
	maxComps  int  // documented maximum number of components (0 = 5)
	skipYear  bool // github: 4-digit first component is a date, compared only among themselves
}

// Marker tables: spellings each ecosystem documents (a spelling the parser rejects is skipped by the harness).
var numOrderEcos = []numOrderEco{
	{pkg: "semver", pre: []string{"-alpha.1", "-rc1", "-0", "-beta"}},
	{pkg: "npm", pre: []string{"-alpha.1", "-rc1", "-0", "-beta"}},
	{pkg: "cargo", pre: []string{"-alpha.1", "-rc1", "-0", "-beta"}},
	{pkg: "hex", pre: []string{"-alpha.1", "-rc1", "-0", "-beta"}},
	{pkg: "nuget", pre: []string{"-alpha.1", "-rc1", "-beta"}},
	{pkg: "golang", prefix: "v", pre: []string{"-alpha.1", "-rc1", "-beta", "-rc.1"}},
	{pkg: "pypi", pre: []string{"a1", "b2", "rc1", ".dev1"}, post: []string{".post1"}},
	{pkg: "gem", pre: []string{".rc1", ".pre", "-alpha", ".a", ".beta2"}},
	{pkg: "maven", pre: []string{"-alpha-1", "-rc1", "-SNAPSHOT", "-beta", "-milestone-2"}, post: []string{"-sp", "-sp-1"}},
	{pkg: "debian", pre: []string{"~rc1", "~"}, post: []string{"-1", "+b1", "+dfsg"}},
	{pkg: "rpm", pre: []string{"~rc1", "~"}, post: []string{"-1", "^git1"}},
	{pkg: "alpine", pre: []string{"_alpha", "_rc1", "_pre2", "_beta"}, post: []string{"_p1", "-r1"}},
	{pkg: "gentoo", pre: []string{"_alpha", "_rc1", "_pre", "_beta2"}, post: []string{"_p1", "-r1"}},
	{pkg: "alpm"},
	{pkg: "conan", pre: []string{"-alpha", "-pre.1", "-rc1"}},
	{pkg: "composer", maxComps: 4, pre: []string{"-alpha1", "-beta", "-RC1", "-rc"}, post: []string{"-patch1", "pl1"}},
	{pkg: "cran"},
	{pkg: "apache", pre: []string{"-alpha", "-beta1", "-RC1", "-M1", "-SNAPSHOT"}},
	{pkg: "github", pre: []string{"-rc1", "-alpha", "-beta.1", "-rc.2"}, skipYear: true},
	{pkg: "mattermost", pre: []string{"-rc1", "-rc2"}},
}

func (n numOrderEco) source() string {
	src := strings.ReplaceAll(numOrderHarness, "package PKG", "package "+n.pkg)
	src = strings.ReplaceAll(src, "PREFIX", fmt.Sprintf("%q", n.prefix))
	src = strings.ReplaceAll(src, "PRE}", quoteList(n.pre)+"}")
	src = strings.ReplaceAll(src, "POST}", quoteList(n.post)+"}")
	skip := "func(t []int) bool { return false }"
	if n.skipYear {
		skip = "func(t []int) bool { return t[0] >= 1000 }"
	}
	mc := n.maxComps
	if mc == 0 {
		mc = 5
	}
	src = strings.ReplaceAll(src, "MAXCOMPS", fmt.Sprint(mc))
	src = strings.ReplaceAll(src, "ALLBASES", fmt.Sprint(harnessThorough))
	if harnessThorough {
		src = strings.Replace(src, "bases := [][]int{{1, 2, 3, 4, 5}, {0, 0, 0, 0, 0}, {10, 9, 11, 2, 1}}", "bases := [][]int{{1, 2, 3, 4, 5}, {0, 0, 0, 0, 0}, {10, 9, 11, 2, 1}, {2147483647, 65535, 999, 100, 99}, {9, 9, 9, 9, 9}}", 1)
	}
	return strings.ReplaceAll(src, "SKIPYEAR", "("+skip+")")
}

type numOrderResult struct {
	status map[string][2]string
	out    string
	secs   float64
	done   bool
}

var (
	numOrderMu    sync.Mutex
	numOrderCache = map[string]*numOrderResult{}
)

func runNumOrder(w *World, n numOrderEco) *numOrderResult {
	numOrderMu.Lock()
	defer numOrderMu.Unlock()
	if r, ok := numOrderCache[n.pkg]; ok {
		return r
	}
	res := &numOrderResult{status: map[string][2]string{}}
	numOrderCache[n.pkg] = res
	pkg := w.byShort[n.pkg]
	if pkg == nil {
		return res
	}
	start := time.Now()
	out, _ := runOverlayTest(w, pkg, n.source(), 240*time.Second)
	res.secs, res.out = time.Since(start).Seconds(), out
	for _, ln := range strings.Split(out, "\n") {
		if strings.HasPrefix(ln, "VERIF-DONE") {
			res.done = true
		}
		f := strings.Split(ln, "\t")
		if len(f) >= 4 && f[0] == "VERIF-C03" {
			res.status[f[1]] = [2]string{f[2], f[3]}
		}
	}
	return res
}

func (w *World) numOrderVCs() []VC {
	var vcs []VC
	for _, n := range numOrderEcos {
		n := n
		fn := w.funcs[n.pkg+".(*Version).Compare"]
		if fn == nil {
			continue
		}
		kinds := []string{"numeric"}
		if len(n.pre) > 0 {
			kinds = append(kinds, "pre-release")
		}
		if len(n.post) > 0 {
			kinds = append(kinds, "post-release")
		}
		for _, k := range kinds {
			k := k
			clause := map[string]string{
				"numeric":      "plain dotted-numeric versions with the same number of components compare as their integer tuples",
				"pre-release":  "adding a pre-release marker (" + strings.Join(n.pre, " ") + ") makes the version strictly older",
				"post-release": "adding a post-release or revision marker (" + strings.Join(n.post, " ") + ") makes the version strictly newer",
			}[k]
			vcs = append(vcs, VC{Name: n.pkg + ".(*Version).Compare.c03[" + k + "].bounded", Prop: "C03", Kind: "bounded.api", Fn: n.pkg + ".(*Version).Compare", Pos: w.pos(fn.Pos()), Clause: clause,
				Bounded: "component counts 1-5 the ecosystem accepts; each of {0,1,2,9,10,11,99,100,999,1000,65535,2^31-1} in every position against three backgrounds; all pairs of equal arity; markers on a third of the bases",
				Run: func() SolveResult {
					r := runNumOrder(w, n)
					res := SolveResult{Solver: "enumeration(go test -overlay)", Seconds: r.secs / 3}
					st, ok := r.status[k]
					switch {
					case !r.done || !ok:
						res.Status, res.Output = "error", "harness did not complete: "+truncate(lastLines(r.out, 6), 600)
					case st[0] == "ok":
						res.Status, res.Output = "unsat", st[1]
					default:
						res.Status, res.Output = "sat", st[1]
						res.cx = &Counterexample{Confirmed: true, Observed: st[1], How: "real " + n.pkg + " NewVersion+Compare on plain numeric versions and marker spellings", Output: st[1]}
					}
					return res
				}})
		}
	}
	return vcs
}

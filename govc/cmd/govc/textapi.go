package main

// C18 bounded API obligations, per ecosystem: the white-space / String() / re-parse harness (also used as the replay of
// failed C18 obligations) run as a standing obligation on the strings harvested from the package's own sources and
// tests plus a fixed list of range spellings.

import (
	"strings"

	"golang.org/x/tools/go/ssa"
)

func (w *World) textAPIVCs() []VC {
	var vcs []VC
	for _, eco := range sortEcosystems {
		eco := eco
		fn := w.funcs[eco+".(*Ecosystem).NewVersion"]
		if fn == nil {
			continue
		}
		vcs = append(vcs, VC{Name: eco + ".(*Ecosystem).NewVersion.c18[text].bounded", Prop: "C18", Kind: "bounded.api", Fn: eco + ".(*Ecosystem).NewVersion", Pos: w.pos(fn.Pos()),
			Clause:  eco + ": String() is the input up to surrounding white space, parsing it again gives an equal value, and padding an input with space / tab / CR / LF changes neither acceptance nor any Compare or Contains result",
			Bounded: "every string literal (up to 40 characters) of the package's sources and tests plus fixed range spellings, bare and with four paddings; compared against up to 120 versions and 120 ranges of the same pool",
			Run: func() SolveResult {
				return falsifierAsObligation(w, fn, textFalsifier)
			}})
	}
	return vcs
}

// falsifierAsObligation runs a replay harness as a bounded obligation: a confirmed difference is sat, a completed run
// without difference is unsat.
func falsifierAsObligation(w *World, fn *ssa.Function, f func(*World, *ssa.Function, vcResult) *Counterexample) SolveResult {
	cx := f(w, fn, vcResult{})
	res := SolveResult{Solver: "enumeration(go test -overlay)", cx: cx}
	switch {
	case cx == nil:
		res.Status = "error"
	case cx.Confirmed:
		res.Status, res.Output = "sat", cx.Observed
	case strings.Contains(cx.Output, "VERIF-DONE") || strings.Contains(cx.Output, "VERIF-OK"):
		res.Status, res.Output = "unsat", lastLines(cx.Output, 4)
	default:
		res.Status, res.Output = "error", cx.Output
	}
	return res
}

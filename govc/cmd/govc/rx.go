package main

// Regular-expression facts, derived mechanically from the pattern literal with
// Go's own regexp/syntax at generation time (so a mutated literal yields
// different facts).  Derived facts are sound over-approximations:
//   - FindStringSubmatch returns nil or exactly NumSubexp+1 strings;
//   - for a pattern anchored with ^ and $, element 0 is the input;
//   - every capture is empty or has length within [min,max] and bytes within
//     the group's byte alphabet (when the group is made of ASCII classes).

import (
	"fmt"
	"go/types"
	"regexp/syntax"
	"sort"
	"strings"

	"golang.org/x/tools/go/ssa"
)

type rxGroup struct {
	lang     []string // finite language of the group (nil: not derived)
	min, max int  // max<0: unbounded
	alpha    *[256]bool // nil: unknown
	always   bool // participates in every match
}

type rxInfo struct {
	pattern  string
	nsub     int
	anchored bool
	groups   []rxGroup // index 1..nsub
	wholeClass *[256]bool // pattern is ^[class]+$ or ^[class]*$
	wholeMin   int
	minLen     int // minimal length of a match
	err      error
}

func analyseRegex(pat string) *rxInfo {
	ri := &rxInfo{pattern: pat}
	re, err := syntax.Parse(pat, syntax.Perl)
	if err != nil {
		ri.err = err
		return ri
	}
	ri.nsub = re.MaxCap()
	ri.groups = make([]rxGroup, ri.nsub+1)
	re = re.Simplify()
	ri.minLen, _ = lenRange(re)
	// anchoring
	if re.Op == syntax.OpConcat && len(re.Sub) >= 2 && re.Sub[0].Op == syntax.OpBeginText && re.Sub[len(re.Sub)-1].Op == syntax.OpEndText {
		ri.anchored = true
		if len(re.Sub) == 3 {
			mid := re.Sub[1]
			if (mid.Op == syntax.OpPlus || mid.Op == syntax.OpStar) && mid.Sub[0].Op == syntax.OpCharClass {
				if a := classAlpha(mid.Sub[0]); a != nil {
					ri.wholeClass = a
					if mid.Op == syntax.OpPlus {
						ri.wholeMin = 1
					}
				}
			}
		}
	}
	var walk func(r *syntax.Regexp, always bool)
	walk = func(r *syntax.Regexp, always bool) {
		switch r.Op {
		case syntax.OpCapture:
			mn, mx := lenRange(r.Sub[0])
			ri.groups[r.Cap] = rxGroup{min: mn, max: mx, alpha: alphaOf(r.Sub[0]), always: always, lang: finiteLang(r.Sub[0])}
			walk(r.Sub[0], always)
		case syntax.OpStar, syntax.OpQuest, syntax.OpRepeat, syntax.OpPlus:
			opt := r.Op == syntax.OpStar || r.Op == syntax.OpQuest || (r.Op == syntax.OpRepeat && r.Min == 0)
			walk(r.Sub[0], always && !opt)
		case syntax.OpAlternate:
			for _, s := range r.Sub {
				walk(s, false)
			}
		case syntax.OpConcat:
			for _, s := range r.Sub {
				walk(s, always)
			}
		}
	}
	walk(re, true)
	return ri
}

// finiteLang: the set of strings a sub-expression can match, when small and finite (else nil).
func finiteLang(r *syntax.Regexp) []string {
	const cap_ = 64
	switch r.Op {
	case syntax.OpEmptyMatch:
		return []string{""}
	case syntax.OpLiteral:
		if r.Flags&syntax.FoldCase != 0 {
			return nil
		}
		return []string{string(r.Rune)}
	case syntax.OpCharClass:
		var out []string
		for i := 0; i+1 < len(r.Rune); i += 2 {
			for c := r.Rune[i]; c <= r.Rune[i+1]; c++ {
				out = append(out, string(c))
				if len(out) > cap_ {
					return nil
				}
			}
		}
		return out
	case syntax.OpCapture:
		return finiteLang(r.Sub[0])
	case syntax.OpQuest:
		l := finiteLang(r.Sub[0])
		if l == nil {
			return nil
		}
		return append([]string{""}, l...)
	case syntax.OpAlternate:
		var out []string
		for _, s := range r.Sub {
			l := finiteLang(s)
			if l == nil {
				return nil
			}
			out = append(out, l...)
		}
		if len(out) > cap_ {
			return nil
		}
		return out
	case syntax.OpConcat:
		out := []string{""}
		for _, s := range r.Sub {
			l := finiteLang(s)
			if l == nil {
				return nil
			}
			var nx []string
			for _, a := range out {
				for _, b := range l {
					nx = append(nx, a+b)
				}
			}
			if len(nx) > cap_ {
				return nil
			}
			out = nx
		}
		return out
	}
	return nil
}

func lenRange(r *syntax.Regexp) (int, int) {
	switch r.Op {
	case syntax.OpEmptyMatch, syntax.OpBeginLine, syntax.OpEndLine, syntax.OpBeginText, syntax.OpEndText, syntax.OpWordBoundary, syntax.OpNoWordBoundary:
		return 0, 0
	case syntax.OpLiteral:
		n := 0
		multi := false
		for _, c := range r.Rune {
			if c >= 0x80 {
				multi = true
			}
			n++
		}
		if multi {
			return n, 4 * n
		}
		return n, n
	case syntax.OpCharClass, syntax.OpAnyCharNotNL, syntax.OpAnyChar:
		if r.Op == syntax.OpCharClass && classAlpha(r) != nil {
			return 1, 1
		}
		return 1, 4
	case syntax.OpCapture:
		return lenRange(r.Sub[0])
	case syntax.OpStar:
		return 0, -1
	case syntax.OpPlus:
		mn, _ := lenRange(r.Sub[0])
		return mn, -1
	case syntax.OpQuest:
		_, mx := lenRange(r.Sub[0])
		return 0, mx
	case syntax.OpRepeat:
		mn, mx := lenRange(r.Sub[0])
		lo := mn * r.Min
		if r.Max < 0 || mx < 0 {
			return lo, -1
		}
		return lo, mx * r.Max
	case syntax.OpConcat:
		lo, hi := 0, 0
		for _, s := range r.Sub {
			a, b := lenRange(s)
			lo += a
			if hi >= 0 {
				if b < 0 {
					hi = -1
				} else {
					hi += b
				}
			}
		}
		return lo, hi
	case syntax.OpAlternate:
		lo, hi := -1, 0
		for _, s := range r.Sub {
			a, b := lenRange(s)
			if lo < 0 || a < lo {
				lo = a
			}
			if hi >= 0 {
				if b < 0 {
					hi = -1
				} else if b > hi {
					hi = b
				}
			}
		}
		if lo < 0 {
			lo = 0
		}
		return lo, hi
	}
	return 0, -1
}

// classAlpha: byte set of an ASCII-only character class, else nil.
func classAlpha(r *syntax.Regexp) *[256]bool {
	var a [256]bool
	for i := 0; i+1 < len(r.Rune); i += 2 {
		lo, hi := r.Rune[i], r.Rune[i+1]
		if hi >= 0x80 {
			return nil
		}
		for c := lo; c <= hi; c++ {
			a[c] = true
		}
	}
	return &a
}

// alphaOf: set of bytes that may occur in a match of r (nil = any).
func alphaOf(r *syntax.Regexp) *[256]bool {
	var a [256]bool
	ok := true
	var walk func(r *syntax.Regexp)
	walk = func(r *syntax.Regexp) {
		switch r.Op {
		case syntax.OpLiteral:
			for _, c := range r.Rune {
				if c >= 0x80 {
					ok = false
					return
				}
				a[c] = true
				if r.Flags&syntax.FoldCase != 0 {
					if c >= 'a' && c <= 'z' {
						a[c-32] = true
					}
					if c >= 'A' && c <= 'Z' {
						a[c+32] = true
					}
				}
			}
		case syntax.OpCharClass:
			ca := classAlpha(r)
			if ca == nil {
				ok = false
				return
			}
			for i, b := range ca {
				if b {
					a[i] = true
				}
			}
		case syntax.OpAnyChar, syntax.OpAnyCharNotNL:
			ok = false
		default:
			for _, s := range r.Sub {
				walk(s)
			}
		}
	}
	walk(r)
	if !ok {
		return nil
	}
	return &a
}

func alphaTerm(a *[256]bool, c Term) Term {
	// ranges
	var rs []Term
	for i := 0; i < 256; {
		if !a[i] {
			i++
			continue
		}
		j := i
		for j+1 < 256 && a[j+1] {
			j++
		}
		if i == j {
			rs = append(rs, fmt.Sprintf("(= %s %d)", c, i))
		} else {
			rs = append(rs, fmt.Sprintf("(and (<= %d %s) (<= %s %d))", i, c, c, j))
		}
		i = j + 1
	}
	return or(rs...)
}

func alphaSubset(a *[256]bool, allowed string) bool {
	for i := 0; i < 256; i++ {
		if a[i] && !strings.ContainsRune(allowed, rune(i)) {
			return false
		}
	}
	return true
}

func alphaIsDigits(a *[256]bool) bool {
	for i := 0; i < 256; i++ {
		if a[i] != (i >= '0' && i <= '9') {
			return false
		}
	}
	return true
}

// rxConst: the symbolic constant for a regexp compiled from a literal (non-global use).
func (g *Gen) rxConst(pat string, t types.Type) Term {
	s := g.sortOf(t)
	name := fmt.Sprintf("RX_%x", hashString(pat))
	if !g.funSeen[name] {
		g.funSeen[name] = true
		g.sortDecl = append(g.sortDecl, fmt.Sprintf("(declare-fun %s () %s)", name, s))
		g.rxUsed[name] = analyseRegex(pat)
	}
	return name
}

func hashString(s string) uint32 {
	var h uint32 = 2166136261
	for i := 0; i < len(s); i++ {
		h ^= uint32(s[i])
		h *= 16777619
	}
	return h
}

// globalUsed is called when a global's constant is first referenced.
func (g *Gen) globalUsed(gl *ssa.Global, name string) {
	gi := g.w.globalInit(gl)
	if gi == nil {
		return
	}
	if gi.regex != "" {
		g.rxUsed[name] = analyseRegex(gi.regex)
	}
	if gi.mapLit != nil {
		// map literal: exact contents
		mt := gl.Type().(*types.Pointer).Elem().Underlying().(*types.Map)
		s := g.sortOf(mt)
		ks := g.sortOf(mt.Key())
		if ks != "Str" {
			return
		}
		keys := make([]string, 0, len(gi.mapLit))
		for k := range gi.mapLit {
			keys = append(keys, k)
		}
		sort.Strings(keys)
		has := "false"
		var facts []string
		kv := "k!m"
		var hs []Term
		for _, k := range keys {
			lit := g.lit(k)
			hs = append(hs, eq(kv, lit))
			mv := gi.mapLit[k]
			if strings.HasPrefix(mv, "@str:") {
				mv = g.lit(mv[5:])
			}
			facts = append(facts, fmt.Sprintf("(= (select (val_%s %s) %s) %s)", s, name, lit, mv))
		}
		has = or(hs...)
		g.sortDecl = append(g.sortDecl, "; map literal "+name)
		g.declare(fmt.Sprintf("(assert (forall ((%s Str)) (! (= (select (has_%s %s) %s) %s) :pattern ((select (has_%s %s) %s)))))", kv, s, name, kv, has, s, name, kv))
		g.declare("(assert (and (not (nil_"+s+" "+name+")) "+strings.Join(facts, " ")+"))")
	}
	if gi.sliceLit != nil {
		st := gl.Type().(*types.Pointer).Elem()
		s := g.sortOf(st)
		var facts []string
		facts = append(facts, fmt.Sprintf("(= (len_%s %s) %d)", s, name, len(gi.sliceLit)), fmt.Sprintf("(= (off_%s %s) 0)", s, name), fmt.Sprintf("(not (nil_%s %s))", s, name))
		for i, v := range gi.sliceLit {
			facts = append(facts, fmt.Sprintf("(= (select (arr_%s %s) %d) %s)", s, name, i, g.lit(v)))
		}
		g.declare("(assert (and "+strings.Join(facts, " ")+"))")
	}
}

// regexCall models FindStringSubmatch / MatchString with the derived facts.
func (e *Exec) regexCall(x *ssa.Call, name string) {
	cc := &x.Call
	re := e.term(cc.Args[0])
	s := e.term(cc.Args[1])
	rs := e.g.sortOf(cc.Args[0].Type())
	ri := e.g.rxUsed[re]
	if name == "(*regexp.Regexp).MatchString" {
		r := e.libCall("regexp.MatchString", []string{rs, "Str"}, "Bool", []Term{re, s})
		if ri != nil && ri.wholeClass != nil {
			e.g.rxMatchAxioms(re, rs, ri)
		}
		e.defVal(x, r)
		return
	}
	e.g.sortOf(types.NewSlice(types.Typ[types.String]))
	r := e.libCall("regexp.FindStringSubmatch", []string{rs, "Str"}, "L_Str", []Term{re, s})
	if ri != nil {
		e.g.rxFindAxioms(re, rs, ri)
	}
	e.defVal(x, r)
}

func (g *Gen) rxMatchAxioms(re, rs string, ri *rxInfo) {
	key := "rxm:" + re
	if g.funSeen[key] {
		return
	}
	g.funSeen[key] = true
	m := "(L_regexp_MatchString " + re + " s)"
	if alphaIsDigits(ri.wholeClass) && ri.wholeMin == 1 {
		g.libDep("isdigits")
		g.declare(fmt.Sprintf("(assert (forall ((s Str)) (! (= %s (L_isdigits s)) :pattern (%s))))", m, m))
		return
	}
	g.declare(fmt.Sprintf("(assert (forall ((s Str)) (! (=> %s (>= (str_len s) %d)) :pattern (%s))))", m, ri.wholeMin, m))
	g.declare(fmt.Sprintf("(assert (forall ((s Str) (i Int)) (! (=> (and %s (<= 0 i) (< i (str_len s))) %s) :pattern (%s (str_at s i)))))", m, alphaTerm(ri.wholeClass, "(str_at s i)"), m))
}

func (g *Gen) rxFindAxioms(re, rs string, ri *rxInfo) {
	key := "rxf:" + re
	if g.funSeen[key] {
		return
	}
	g.funSeen[key] = true
	m := "(L_regexp_FindStringSubmatch " + re + " s)"
	el := func(k int) Term { return fmt.Sprintf("(select (arr_L_Str %s) %d)", m, k) }
	var facts []Term
	facts = append(facts, fmt.Sprintf("(= (off_L_Str %s) 0)", m))
	facts = append(facts, fmt.Sprintf("(or (and (nil_L_Str %s) (= (len_L_Str %s) 0)) (and (not (nil_L_Str %s)) (= (len_L_Str %s) %d)))", m, m, m, m, ri.nsub+1))
	var pos []Term
	if ri.anchored {
		pos = append(pos, eq(el(0), "s"))
		pos = append(pos, fmt.Sprintf("(>= (str_len s) %d)", ri.minLen))
	}
	for k := 1; k <= ri.nsub; k++ {
		gr := ri.groups[k]
		l := "(str_len " + el(k) + ")"
		var rng Term
		if gr.max >= 0 {
			rng = fmt.Sprintf("(and (<= %d %s) (<= %s %d))", gr.min, l, l, gr.max)
		} else {
			rng = fmt.Sprintf("(<= %d %s)", gr.min, l)
		}
		if gr.always {
			pos = append(pos, rng)
		} else {
			pos = append(pos, or("(= "+l+" 0)", rng))
		}
		if gr.lang != nil {
			var alts []Term
			seen := map[string]bool{}
			if !gr.always {
				alts = append(alts, eq(el(k), g.lit("")))
				seen[""] = true
			}
			for _, w := range gr.lang {
				if !seen[w] {
					seen[w] = true
					alts = append(alts, eq(el(k), g.lit(w)))
				}
			}
			pos = append(pos, or(alts...))
		}
	}
	facts = append(facts, implies("(not (nil_L_Str "+m+"))", and(pos...)))
	g.declare(fmt.Sprintf("(assert (forall ((s Str)) (! %s :pattern (%s))))", and(facts...), m))
	for k := 1; k <= ri.nsub; k++ {
		gr := ri.groups[k]
		if gr.alpha == nil {
			continue
		}
		g.declare(fmt.Sprintf("(assert (forall ((s Str) (i Int)) (! (=> (and (not (nil_L_Str %s)) (<= 0 i) (< i (str_len %s))) %s) :pattern ((str_at %s i)))))", m, el(k), alphaTerm(gr.alpha, "(str_at "+el(k)+" i)"), el(k)))
		if alphaSubset(gr.alpha, "0123456789.") && !alphaIsDigits(gr.alpha) {
			g.libDep("digdots")
			g.declare(fmt.Sprintf("(assert (forall ((s Str)) (! (=> (not (nil_L_Str %s)) (L_digdots %s)) :pattern (%s))))", m, el(k), m))
		}
		if alphaIsDigits(gr.alpha) {
			g.libDep("isdigits")
			g.declare(fmt.Sprintf("(assert (forall ((s Str)) (! (=> (and (not (nil_L_Str %s)) (> (str_len %s) 0)) (L_isdigits %s)) :pattern (%s))))", m, el(k), el(k), m))
		}
	}
}

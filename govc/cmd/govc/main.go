package main

import (
	"flag"
	"fmt"
	"os"
	"path/filepath"
	"sort"
	"strings"
	"sync"
	"time"
)

var repoDir = envOr("GOVC_REPO", "/repo")

func envOr(k, d string) string {
	if v := os.Getenv(k); v != "" {
		return v
	}
	return d
}

func main() {
	if len(os.Args) < 2 {
		fmt.Println("usage: govc dev|check|replay ...")
		os.Exit(2)
	}
	switch os.Args[1] {
	case "dev":
		devCmd(os.Args[2:])
	case "audit":
		os.Exit(auditCmd())
	case "harness":
		// maintainer aid: print the raw output of a bounded API harness (harness <prop> [<ecosystem>])
		w, err := loadWorld(repoDir)
		if err != nil {
			fmt.Println("load:", err)
			os.Exit(2)
		}
		harnessThorough = envOr("GOVC_TIER", "quick") == "thorough"
		for _, r := range refOrders {
			if len(os.Args) > 2 && r.prop == os.Args[2] {
				out, _ := runOverlayTest(w, w.byShort[r.pkg], r.source(), 240*time.Second)
				fmt.Println(out)
			}
		}
		if len(os.Args) > 2 && os.Args[2] == "C02" {
			fmt.Println(runRangeOps(w).out)
		}
		if len(os.Args) > 2 && os.Args[2] == "C07" {
			fmt.Println(runSortHarness(w).out)
		}
		if len(os.Args) > 2 && os.Args[2] == "C16" {
			fmt.Println(runVersInv(w, envOr("GOVC_TIER", "quick")).out)
		}
		if len(os.Args) > 3 && os.Args[2] == "C05" {
			fmt.Println(runShorthand(w, os.Args[3]).out)
		}
	case "check":
		os.Exit(checkCmd(os.Args[2:]))
	default:
		fmt.Println("unknown command", os.Args[1])
		os.Exit(2)
	}
}

type vcResult struct {
	vc  VC
	res SolveResult
}

func runVCs(vcs []VC, workDir string, timeout time.Duration, par int) []vcResult {
	out := make([]vcResult, len(vcs))
	var wg sync.WaitGroup
	sem := make(chan struct{}, par)
	for i := range vcs {
		out[i].vc = vcs[i]
		if vcs[i].Kind == "unsupported" {
			out[i].res = SolveResult{Status: "unsupported", Output: vcs[i].Unsupported}
			continue
		}
		wg.Add(1)
		go func(i int) {
			defer wg.Done()
			sem <- struct{}{}
			defer func() { <-sem }()
			if vcs[i].Run != nil {
				out[i].res = vcs[i].Run()
				return
			}
			file := filepath.Join(workDir, sanitizeFile(vcs[i].Name)+".smt2")
			to := timeout
			if vcs[i].ExpectSat && to > 1*time.Second {
				to = 1 * time.Second
			}
			out[i].res = solve(vcs[i].Script, file, to, vcs[i].ExpectSat)
			if st := out[i].res.Status; (st == "unknown" || st == "timeout") && vcs[i].StageBase != "" {
				out[i].res = solveStaged(vcs[i], file, to, out[i].res)
			}
		}(i)
	}
	wg.Wait()
	return out
}

func sanitizeFile(s string) string {
	r := strings.NewReplacer("/", "_", "*", "p", "(", "", ")", "", "[", "_", "]", "", " ", "_", "@", "_at_", "#", "_", "$", "_", "<", "lt", ">", "gt", "=", "eq", "!", "not", "~", "tilde", "^", "caret", "|", "or")
	return r.Replace(s)
}

func devCmd(args []string) {
	devTier := envOr("GOVC_TIER", "quick")
	fs := flag.NewFlagSet("dev", flag.ExitOnError)
	filter := fs.String("fn", "", "substring filter on obligation name")
	safe := fs.Bool("safe", false, "include safety obligations")
	timeout := fs.Duration("t", 10*time.Second, "timeout")
	verbose := fs.Bool("v", false, "verbose")
	cxs := fs.Bool("cx", false, "search counterexamples on the real code for failed obligations")
	fs.Parse(args)
	prop := fs.Arg(0)
	useCache = os.Getenv("GOVC_CACHE") != ""
	start := time.Now()
	w, err := loadWorld(repoDir)
	if err != nil {
		fmt.Println("load:", err)
		os.Exit(2)
	}
	for _, e := range w.loadErrs {
		fmt.Println("contract error:", e)
	}
	fmt.Printf("loaded in %.1fs, %d functions, %d contracts\n", time.Since(start).Seconds(), len(w.allFuncs), len(w.contracts))
	vcs := w.propVCs(prop, *safe)
	if d := propDrivers[prop]; d != nil && d.extra != nil {
		harnessThorough = devTier == "thorough"
		vcs = append(vcs, d.extra(w, devTier)...)
	}
	var sel []VC
	for _, v := range vcs {
		if *filter == "" || strings.Contains(v.Name, *filter) {
			sel = append(sel, v)
		}
	}
	fmt.Printf("%d obligations (%d selected) generated in %.1fs\n", len(vcs), len(sel), time.Since(start).Seconds())
	res := runVCs(sel, "/verif/work/dev/"+prop, *timeout, 8)
	sort.Slice(res, func(i, j int) bool { return res[i].vc.Name < res[j].vc.Name })
	counts := map[string]int{}
	for _, r := range res {
		st := r.res.Status
		if r.vc.ExpectSat {
			if st != "unsat" {
				st = "ok(canary)"
			} else {
				st = "VACUOUS:" + st
			}
		}
		counts[st]++
		if *cxs && st != "unsat" && st != "ok(canary)" && r.res.cx == nil {
			if cx := searchCounterexample(w, prop, r); cx != nil {
				fmt.Printf("   CX %s confirmed=%v %s | %s\n", r.vc.Name, cx.Confirmed, cx.Observed, cx.How)
			}
		}
		if *verbose || (st != "unsat" && st != "ok(canary)") {
			fmt.Printf("%-12s %-70s %s %.2fs %s @%s\n", st, r.vc.Name, r.res.Solver, r.res.Seconds, truncate(strings.ReplaceAll(r.res.Output, "\n", " "), 100), r.vc.Pos)
		}
	}
	fmt.Println(counts, fmt.Sprintf("%.1fs", time.Since(start).Seconds()))
}


package main

// SMT sorts, symbol mangling and the per-query builder ("Gen").
//
// One Gen = one SMT-LIB script under construction.  Everything that is
// declared in it (sorts, literals, uninterpreted functions for callees,
// axioms derived from contracts) is emitted in dependency order.

import (
	"fmt"
	"go/constant"
	"go/types"
	"sort"
	"strconv"
	"strings"

	"golang.org/x/tools/go/ssa"
)

type Term = string

const (
	minInt64 = "(- 9223372036854775808)"
	maxInt64 = "9223372036854775807"
)

func sanitize(s string) string {
	var b strings.Builder
	for _, r := range s {
		switch {
		case r >= 'a' && r <= 'z', r >= 'A' && r <= 'Z', r >= '0' && r <= '9', r == '_':
			b.WriteRune(r)
		case r == '.' || r == '/':
			b.WriteByte('_')
		case r == '*':
			b.WriteString("p")
		case r == '[':
			b.WriteString("L")
		case r == ']':
			b.WriteString("J")
		default:
			b.WriteString("_")
		}
	}
	return b.String()
}

func shortPkg(p *types.Package) string {
	if p == nil {
		return ""
	}
	path := p.Path()
	path = strings.TrimPrefix(path, "github.com/alowayed/go-univers/")
	path = strings.TrimPrefix(path, "pkg/ecosystem/")
	path = strings.TrimPrefix(path, "pkg/spec/")
	path = strings.TrimPrefix(path, "pkg/")
	return sanitize(path)
}

// Gen is one SMT script.
type Gen struct {
	w         *World
	sortDecl  []string          // ordered sort declarations
	sortSeen  map[string]bool   // sort name -> declared
	decls     []string          // declare-fun / define-fun in order
	asserts   []string          // assertions (axioms + definitions + assumptions)
	lits      map[string]string // string literal -> symbol
	litOrder  []string
	funSeen   map[string]bool
	nfresh    int
	callees   map[*ssa.Function]bool // repo callees referenced (their contract axioms are emitted)
	calleeOrd []*ssa.Function
	libs      map[string]bool // library symbols referenced
	groups    []string        // loop-invariant groups with a guard constant
	declGroup map[int]string  // index into decls -> group of that assumption
	nHsk      int             // counter of named witnesses of existential hypotheses
	goalSk    []Term          // goal Skolem constants of the function being verified (instantiation points for quantified callee postconditions)
	tags      map[string]bool // property tags whose facts may be used as premises (nil = all)
	rxUsed    map[string]*rxInfo
	notes     []string
	unsupported string
	zarrs []string
	fnConsts []string
	ifaceHook func(sym, method string, i int, sorts []string, rsort string)
}

func newGen(w *World, tags []string) *Gen {
	g := &Gen{w: w, sortSeen: map[string]bool{}, lits: map[string]string{}, funSeen: map[string]bool{},
		callees: map[*ssa.Function]bool{}, libs: map[string]bool{}, rxUsed: map[string]*rxInfo{}}
	if tags != nil {
		g.tags = map[string]bool{}
		for _, t := range tags {
			g.tags[t] = true
		}
	}
	return g
}

func (g *Gen) fresh(base string) string {
	g.nfresh++
	return fmt.Sprintf("%s!%d", sanitize(base), g.nfresh)
}

func (g *Gen) declare(s string) { g.decls = append(g.decls, s) }

// group returns the guard constant of a loop-invariant group; grouped invariants are assumed under their guard and
// a goal switches on only the groups it names (dropping assumptions is sound, and keeps each query small).
func (g *Gen) group(name string) Term {
	c := "grp!" + name
	for _, n := range g.groups {
		if n == name {
			return c
		}
	}
	g.groups = append(g.groups, name)
	g.declare("(declare-fun " + c + " () Bool)")
	return c
}

// groupLines are the script lines that switch the groups on or off for one goal (all on when enabled is nil).
func (g *Gen) groupLines(enabled []string, all bool) []string {
	var out []string
	for _, n := range g.groups {
		on := all
		for _, e := range enabled {
			if e == n {
				on = true
			}
		}
		if on {
			out = append(out, "(assert grp!"+n+")")
		} else {
			out = append(out, "(assert (not grp!"+n+"))")
		}
	}
	return out
}
func (g *Gen) assert(t Term)    { g.decls = append(g.decls, "(assert "+t+")") }

// declConst declares an uninterpreted constant or, when bound vars are in
// scope, a skolem function of them; returns the term to use.
func (g *Gen) declConst(name, sort_ string, bound []boundVar) Term {
	if len(bound) == 0 {
		g.declare(fmt.Sprintf("(declare-fun %s () %s)", name, sort_))
		return name
	}
	var ss, as []string
	for _, b := range bound {
		ss = append(ss, b.sort)
		as = append(as, b.name)
	}
	g.declare(fmt.Sprintf("(declare-fun %s (%s) %s)", name, strings.Join(ss, " "), sort_))
	return "(" + name + " " + strings.Join(as, " ") + ")"
}

// defConst defines name := term (as a macro); with bound vars it is a function of them.
func (g *Gen) defConst(name, sort_ string, term Term, bound []boundVar) Term {
	if len(bound) == 0 {
		g.declare(fmt.Sprintf("(declare-fun %s () %s)", name, sort_))
		g.declare(fmt.Sprintf("(assert (= %s %s))", name, term))
		return name
	}
	var ps, as []string
	for _, b := range bound {
		ps = append(ps, "("+b.name+" "+b.sort+")")
		as = append(as, b.name)
	}
	g.declare(fmt.Sprintf("(define-fun %s (%s) %s %s)", name, strings.Join(ps, " "), sort_, term))
	return "(" + name + " " + strings.Join(as, " ") + ")"
}

type boundVar struct{ name, sort string }

// ---------------------------------------------------------------- sorts

func (g *Gen) addSort(name, decl string) {
	if g.sortSeen[name] {
		return
	}
	g.sortSeen[name] = true
	g.sortDecl = append(g.sortDecl, decl)
}

func isRepoPkg(p *types.Package) bool {
	return p != nil && strings.HasPrefix(p.Path(), "github.com/alowayed/go-univers")
}

// sortOf maps a Go type to an SMT sort name, declaring it on demand.
func (g *Gen) sortOf(t types.Type) string {
	switch tt := t.(type) {
	case *types.Named:
		if tt.Obj().Pkg() == nil && tt.Obj().Name() == "error" {
			g.needErr()
			return "Err"
		}
		if st, ok := tt.Underlying().(*types.Struct); ok && isRepoPkg(tt.Obj().Pkg()) {
			name := "S_" + shortPkg(tt.Obj().Pkg()) + "_" + sanitize(tt.Obj().Name())
			if ta := tt.TypeArgs(); ta != nil && ta.Len() > 0 {
				name += "_g"
			}
			if parent := tt.Obj().Parent(); parent != nil && tt.Obj().Pkg() != nil && parent != tt.Obj().Pkg().Scope() {
				name += "_loc"
			}
			if !g.sortSeen[name] {
				g.sortSeen[name] = true // recursion guard
				var fs []string
				for i := 0; i < st.NumFields(); i++ {
					f := st.Field(i)
					fs = append(fs, fmt.Sprintf("(%s %s)", g.fieldAcc(name, f.Name()), g.sortOf(f.Type())))
				}
				if len(fs) == 0 {
					g.sortDecl = append(g.sortDecl, fmt.Sprintf("(declare-datatypes ((%s 0)) (((mk_%s))))", name, name))
				} else {
					g.sortDecl = append(g.sortDecl, fmt.Sprintf("(declare-datatypes ((%s 0)) (((mk_%s %s))))", name, name, strings.Join(fs, " ")))
				}
			}
			return name
		}
		if _, ok := tt.Underlying().(*types.Interface); ok {
			name := "I_" + shortPkg(tt.Obj().Pkg()) + "_" + sanitize(tt.Obj().Name())
			g.addSort(name, fmt.Sprintf("(declare-sort %s 0)", name))
			return name
		}
		if isRepoPkg(tt.Obj().Pkg()) {
			return g.sortOf(tt.Underlying())
		}
		// opaque library type
		name := "O_" + shortPkg(tt.Obj().Pkg()) + "_" + sanitize(tt.Obj().Name())
		g.addSort(name, fmt.Sprintf("(declare-sort %s 0)", name))
		return name
	case *types.Alias:
		return g.sortOf(types.Unalias(tt))
	case *types.Basic:
		switch {
		case tt.Info()&types.IsBoolean != 0:
			return "Bool"
		case tt.Info()&types.IsInteger != 0:
			return "Int"
		case tt.Info()&types.IsString != 0:
			return "Str"
		case tt.Kind() == types.UntypedNil:
			return "Int"
		case tt.Kind() == types.UnsafePointer:
			return "Int"
		}
		g.unsupported = "basic type " + tt.String()
		return "Int"
	case *types.Pointer:
		es := g.sortOf(tt.Elem())
		name := "P_" + sanitize(es)
		g.addSort(name, fmt.Sprintf("(declare-datatypes ((%s 0)) (((nil_%s) (ptr_%s (deref_%s %s)))))", name, name, name, name, es))
		return name
	case *types.Slice:
		es := g.sortOf(tt.Elem())
		name := "L_" + sanitize(es)
		g.addSort(name, fmt.Sprintf("(declare-datatypes ((%s 0)) (((mk_%s (nil_%s Bool) (arr_%s (Array Int %s)) (off_%s Int) (len_%s Int)))))", name, name, name, name, es, name, name))
		return name
	case *types.Array:
		es := g.sortOf(tt.Elem())
		return "(Array Int " + es + ")"
	case *types.Map:
		ks, vs := g.sortOf(tt.Key()), g.sortOf(tt.Elem())
		name := "M_" + sanitize(ks) + "_" + sanitize(vs)
		g.addSort(name, fmt.Sprintf("(declare-datatypes ((%s 0)) (((mk_%s (nil_%s Bool) (val_%s (Array %s %s)) (has_%s (Array %s Bool))))))", name, name, name, name, ks, vs, name, ks))
		return name
	case *types.Interface:
		if tt.NumMethods() == 0 {
			g.needErr()
			g.addSort("Any", "(declare-datatypes ((Any 0)) (((any_nil) (any_int (int_of Int)) (any_str (str_of Str)) (any_bool (bool_of Bool)) (any_err (err_of Err)) (any_other (tag_of Int) (id_of Int)))))")
			return "Any"
		}
		if tt.NumMethods() == 1 && tt.Method(0).Name() == "Error" {
			g.needErr()
			return "Err"
		}
		name := "I_anon" + strconv.Itoa(tt.NumMethods())
		g.addSort(name, fmt.Sprintf("(declare-sort %s 0)", name))
		return name
	case *types.TypeParam:
		name := "TP_" + sanitize(tt.Obj().Name())
		g.addSort(name, fmt.Sprintf("(declare-sort %s 0)", name))
		return name
	case *types.Signature:
		g.addSort("Fn", "(declare-sort Fn 0)")
		return "Fn"
	case *types.Struct:
		// anonymous struct: name by field list
		name := "S_anon"
		for i := 0; i < tt.NumFields(); i++ {
			name += "_" + sanitize(tt.Field(i).Name())
		}
		if !g.sortSeen[name] {
			g.sortSeen[name] = true
			var fs []string
			for i := 0; i < tt.NumFields(); i++ {
				f := tt.Field(i)
				fs = append(fs, fmt.Sprintf("(%s %s)", g.fieldAcc(name, f.Name()), g.sortOf(f.Type())))
			}
			g.sortDecl = append(g.sortDecl, fmt.Sprintf("(declare-datatypes ((%s 0)) (((mk_%s %s))))", name, name, strings.Join(fs, " ")))
		}
		return name
	case *types.Tuple:
		g.unsupported = "tuple sort"
		return "Int"
	}
	g.unsupported = fmt.Sprintf("type %T %s", t, t)
	return "Int"
}

func (g *Gen) fieldAcc(structSort, field string) string {
	return "f_" + strings.TrimPrefix(structSort, "S_") + "_" + sanitize(field)
}

// structOf returns the struct type under t (after pointers/named), or nil.
func structOf(t types.Type) (*types.Struct, types.Type) {
	for {
		switch tt := t.(type) {
		case *types.Pointer:
			t = tt.Elem()
			continue
		case *types.Alias:
			t = types.Unalias(tt)
			continue
		}
		break
	}
	if st, ok := t.Underlying().(*types.Struct); ok {
		return st, t
	}
	return nil, nil
}

// zero value of a Go type as an SMT term.
func (g *Gen) zero(t types.Type) Term {
	s := g.sortOf(t)
	if strings.HasPrefix(s, "O_") || strings.HasPrefix(s, "I_") || strings.HasPrefix(s, "TP_") || s == "Fn" {
		return g.zeroNamed(s)
	}
	switch tt := t.Underlying().(type) {
	case *types.Basic:
		switch {
		case tt.Info()&types.IsBoolean != 0:
			return "false"
		case tt.Info()&types.IsInteger != 0:
			return "0"
		case tt.Info()&types.IsString != 0:
			return g.lit("")
		}
	case *types.Pointer:
		return "nil_" + s
	case *types.Slice:
		return g.nilSlice(s)
	case *types.Struct:
		var fs []string
		for i := 0; i < tt.NumFields(); i++ {
			fs = append(fs, g.zero(tt.Field(i).Type()))
		}
		if len(fs) == 0 {
			return "mk_" + s
		}
		return "(mk_" + s + " " + strings.Join(fs, " ") + ")"
	case *types.Interface:
		if s == "Err" {
			g.needErr()
			return "err_nil"
		}
		if s == "Any" {
			return "any_nil"
		}
	case *types.Array:
		return g.constArray("Int", tt.Elem())
	case *types.Map:
		return g.zeroNamed(s)
	}
	return g.zeroNamed(s)
}

// zeroNamed: an uninterpreted distinguished constant for sorts without a structural zero.
func (g *Gen) zeroNamed(s string) Term {
	name := "zero_" + sanitize(s)
	if !g.funSeen[name] {
		g.funSeen[name] = true
		g.sortDecl = append(g.sortDecl, fmt.Sprintf("(declare-fun %s () %s)", name, s))
	}
	return name
}

func (g *Gen) nilSlice(sort_ string) Term {
	name := "nilslice_" + sanitize(sort_)
	if !g.funSeen[name] {
		g.funSeen[name] = true
		g.sortDecl = append(g.sortDecl, fmt.Sprintf("(declare-fun %s () %s)", name, sort_))
		g.sortDecl = append(g.sortDecl, fmt.Sprintf("(assert (and (nil_%s %s) (= (len_%s %s) 0) (= (off_%s %s) 0)))", sort_, name, sort_, name, sort_, name))
	}
	return name
}

// constArray: the all-zero array over elem type t (a named constant with a defining axiom;
// `(as const …)` needs a value argument in cvc5 and our zero terms are not always values).
func (g *Gen) constArray(keySort string, t types.Type) Term {
	es := g.sortOf(t)
	z := g.zero(t)
	name := "zarr_" + sanitize(keySort) + "_" + sanitize(es)
	if !g.funSeen[name] {
		g.funSeen[name] = true
		g.zarrs = append(g.zarrs, fmt.Sprintf("(declare-fun %s () (Array %s %s))\n(assert (forall ((i %s)) (! (= (select %s i) %s) :pattern ((select %s i)))))", name, keySort, es, keySort, name, z, name))
	}
	return name
}

// boxTerm: a concrete value converted to an interface (injective per dynamic type, tagged with the type).
func (g *Gen) boxTerm(t types.Type, ifaceSort string, v Term, w *World) Term {
	xs := g.sortOf(t)
	g.addSort(ifaceSort, fmt.Sprintf("(declare-sort %s 0)", ifaceSort))
	fn := "box_" + sanitize(xs) + "_" + sanitize(ifaceSort)
	dyn := "dyn_" + sanitize(ifaceSort)
	if !g.funSeen[dyn] {
		g.funSeen[dyn] = true
		g.sortDecl = append(g.sortDecl, fmt.Sprintf("(declare-fun %s (%s) Int)", dyn, ifaceSort))
	}
	if !g.funSeen[fn] {
		g.funSeen[fn] = true
		g.sortDecl = append(g.sortDecl, fmt.Sprintf("(declare-fun %s (%s) %s)", fn, xs, ifaceSort))
		g.sortDecl = append(g.sortDecl, fmt.Sprintf("(assert (forall ((x %s)) (! (= (%s (%s x)) %d) :pattern ((%s x)))))", xs, dyn, fn, w.typeTag(t), fn))
	}
	// dynamic dispatch of Name() on a boxed ecosystem value: the interface method applied to the box is the concrete method
	// (Go semantics; the VERS evaluator and the CLI select behaviour by this name)
	if ifaceSort == "I_univers_Ecosystem" && w != nil {
		if pt, ok := t.(*types.Pointer); ok {
			if nt, ok := pt.Elem().(*types.Named); ok && nt.Obj().Name() == "Ecosystem" && nt.Obj().Pkg() != nil {
				short := nt.Obj().Pkg().Name()
				key := "dispatch_Name_" + short
				if cf := w.funcs[short+".(*Ecosystem).Name"]; cf != nil && w.contractOf(cf) != nil && !g.funSeen[key] {
					g.funSeen[key] = true
					m := "M_" + sanitize(ifaceSort) + "_Name"
					if !g.funSeen[m] {
						g.funSeen[m] = true
						g.declare(fmt.Sprintf("(declare-fun %s (%s) Str)", m, ifaceSort))
						g.ifaceAxioms(m, "Name", 0, []string{ifaceSort}, "Str")
					}
					app := g.useCallee(cf, []Term{"x"})[0]
					g.declare(fmt.Sprintf("(assert (forall ((x %s)) (! (= (%s (%s x)) %s) :pattern ((%s x)))))", xs, m, fn, app, fn))
				}
			}
		}
	}
	return "(" + fn + " " + v + ")"
}

func (g *Gen) needErr() {
	g.addSort("Err", "(declare-sort Err 0)\n(declare-fun err_nil () Err)")
}

// ---------------------------------------------------------------- literals

func (g *Gen) lit(s string) Term {
	if sym, ok := g.lits[s]; ok {
		return sym
	}
	sym := fmt.Sprintf("lit%d_%s", len(g.lits), sanitize(truncate(s, 12)))
	g.lits[s] = sym
	g.litOrder = append(g.litOrder, s)
	return sym
}

func truncate(s string, n int) string {
	if len(s) > n {
		return s[:n]
	}
	return s
}

func (g *Gen) constTerm(c *ssa.Const) Term {
	if c.Value == nil {
		return g.zero(c.Type())
	}
	switch c.Value.Kind() {
	case constant.Bool:
		if constant.BoolVal(c.Value) {
			return "true"
		}
		return "false"
	case constant.Int:
		return intLit(c.Value.ExactString())
	case constant.String:
		return g.lit(constant.StringVal(c.Value))
	}
	g.unsupported = "constant " + c.String()
	return "0"
}

func intLit(s string) Term {
	if strings.HasPrefix(s, "-") {
		return "(- " + s[1:] + ")"
	}
	return s
}

// ---------------------------------------------------------------- emit

const strPrelude = `
(declare-sort Str 0)
(declare-fun str_len (Str) Int)
(declare-fun str_at (Str Int) Int)
(declare-fun str_sub (Str Int Int) Str)
(declare-fun str_cat (Str Str) Str)
(declare-fun str_rank (Str) Real)
(define-fun str_lt ((a Str) (b Str)) Bool (< (str_rank a) (str_rank b)))
(assert (forall ((s Str)) (! (and (>= (str_len s) 0) (<= (str_len s) 4611686018427387904)) :pattern ((str_len s)))))
(assert (forall ((s Str) (i Int)) (! (and (<= 0 (str_at s i)) (<= (str_at s i) 255)) :pattern ((str_at s i)))))
(assert (forall ((x Str) (y Str)) (! (=> (= (str_rank x) (str_rank y)) (= x y)) :pattern ((str_rank x) (str_rank y)))))
(define-fun wrap64 ((x Int)) Int (ite (> x 9223372036854775807) (- x 18446744073709551616) (ite (< x (- 9223372036854775808)) (+ x 18446744073709551616) x)))
(define-fun inr64 ((x Int)) Bool (and (<= (- 9223372036854775808) x) (<= x 9223372036854775807)))
`

const strSubAxioms = `
(assert (forall ((s Str) (a Int) (b Int)) (! (=> (and (<= 0 a) (<= a b) (<= b (str_len s))) (= (str_len (str_sub s a b)) (- b a))) :pattern ((str_sub s a b)))))
(assert (forall ((s Str) (a Int) (b Int) (i Int)) (! (=> (and (<= 0 a) (<= a b) (<= b (str_len s)) (<= 0 i) (< i (- b a))) (= (str_at (str_sub s a b) i) (str_at s (+ a i)))) :pattern ((str_at (str_sub s a b) i)))))
(assert (forall ((s Str)) (! (= (str_sub s 0 (str_len s)) s) :pattern ((str_sub s 0 (str_len s))))))
`

const strCatAxioms = `
(assert (forall ((x Str) (y Str) (z Str)) (! (= (str_cat (str_cat x y) z) (str_cat x (str_cat y z))) :pattern ((str_cat (str_cat x y) z)))))
(assert (forall ((x Str) (y Str)) (! (= (str_len (str_cat x y)) (+ (str_len x) (str_len y))) :pattern ((str_cat x y)))))
(assert (forall ((x Str) (y Str) (i Int)) (! (=> (and (<= 0 i) (< i (str_len x))) (= (str_at (str_cat x y) i) (str_at x i))) :pattern ((str_at (str_cat x y) i)))))
(assert (forall ((x Str) (y Str) (i Int)) (! (=> (and (<= (str_len x) i) (< i (+ (str_len x) (str_len y)))) (= (str_at (str_cat x y) i) (str_at y (- i (str_len x))))) :pattern ((str_at (str_cat x y) i)))))
`

// script renders the whole query; goal is asserted negated by the caller.
func (g *Gen) script(extra []string) string {
	var b strings.Builder
	b.WriteString("(set-option :produce-models true)\n(set-logic ALL)\n")
	b.WriteString(strPrelude)
	b.WriteString(strSubAxioms)
	b.WriteString(strCatAxioms)
	for _, d := range g.sortDecl {
		b.WriteString(d + "\n")
	}
	// literals
	var lits []string
	for _, s := range g.litOrder {
		sym := g.lits[s]
		lits = append(lits, sym)
		fmt.Fprintf(&b, "(declare-fun %s () Str)\n(assert (= (str_len %s) %d))\n", sym, sym, len(s))
		for i := 0; i < len(s); i++ {
			fmt.Fprintf(&b, "(assert (= (str_at %s %d) %d))\n", sym, i, s[i])
		}
	}
	if len(lits) > 1 {
		fmt.Fprintf(&b, "(assert (distinct %s))\n", strings.Join(lits, " "))
	}
	var litFacts []string
	if g.funSeen["L_isdigits"] {
		for _, s := range g.litOrder {
			alld := len(s) > 0
			for i := 0; i < len(s); i++ {
				if s[i] < '0' || s[i] > '9' {
					alld = false
				}
			}
			if alld {
				litFacts = append(litFacts, fmt.Sprintf("(assert (L_isdigits %s))", g.lits[s]))
				if g.funSeen["L_numval"] && len(s) <= 18 {
					v, _ := strconv.ParseInt(s, 10, 64)
					litFacts = append(litFacts, fmt.Sprintf("(assert (= (L_numval %s) %d))", g.lits[s], v))
				}
			} else {
				litFacts = append(litFacts, fmt.Sprintf("(assert (not (L_isdigits %s)))", g.lits[s]))
			}
		}
	}
	if e, ok := g.lits[""]; ok {
		fmt.Fprintf(&b, "(assert (forall ((s Str)) (! (=> (= (str_len s) 0) (= s %s)) :pattern ((str_len s)))))\n", e)
	}
	if len(g.fnConsts) > 1 {
		fmt.Fprintf(&b, "(assert (distinct %s))\n", strings.Join(g.fnConsts, " "))
	}
	if len(g.fnConsts) > 0 && g.funSeen["zero_Fn"] {
		for _, c := range g.fnConsts {
			fmt.Fprintf(&b, "(assert (not (= %s zero_Fn)))\n", c)
		}
	}
	for _, d := range g.zarrs {
		b.WriteString(d + "\n")
	}
	// assumptions of a loop-invariant group the goal switches off are left out altogether
	off := map[string]bool{}
	for _, e := range extra {
		if strings.HasPrefix(e, "(assert (not grp!") {
			off[strings.TrimSuffix(strings.TrimPrefix(e, "(assert (not grp!"), "))")] = true
		}
	}
	for i, d := range g.decls {
		if grp, ok := g.declGroup[i]; ok && off[grp] {
			continue
		}
		b.WriteString(d + "\n")
	}
	for _, d := range litFacts {
		b.WriteString(d + "\n")
	}
	for _, e := range extra {
		b.WriteString(e + "\n")
	}
	return b.String()
}

func sortedKeys[V any](m map[string]V) []string {
	ks := make([]string, 0, len(m))
	for k := range m {
		ks = append(ks, k)
	}
	sort.Strings(ks)
	return ks
}

func and(ts ...Term) Term {
	var xs []string
	for _, t := range ts {
		if t == "true" || t == "" {
			continue
		}
		if t == "false" {
			return "false"
		}
		xs = append(xs, t)
	}
	switch len(xs) {
	case 0:
		return "true"
	case 1:
		return xs[0]
	}
	return "(and " + strings.Join(xs, " ") + ")"
}

func or(ts ...Term) Term {
	var xs []string
	for _, t := range ts {
		if t == "false" || t == "" {
			continue
		}
		if t == "true" {
			return "true"
		}
		xs = append(xs, t)
	}
	switch len(xs) {
	case 0:
		return "false"
	case 1:
		return xs[0]
	}
	return "(or " + strings.Join(xs, " ") + ")"
}

func not(t Term) Term {
	if t == "true" {
		return "false"
	}
	if t == "false" {
		return "true"
	}
	return "(not " + t + ")"
}

func implies(a, b Term) Term {
	if a == "true" {
		return b
	}
	return "(=> " + a + " " + b + ")"
}

func eq(a, b Term) Term  { return "(= " + a + " " + b + ")" }
func ite(c, a, b Term) Term {
	if c == "true" {
		return a
	}
	if c == "false" {
		return b
	}
	if a == b {
		return a
	}
	return "(ite " + c + " " + a + " " + b + ")"
}

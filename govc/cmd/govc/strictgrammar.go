package main

// C08 bounded obligation: the strict semver ecosystem rejects what SemVer 2.0.0 rejects.  The oracle is the regular
// expression published with the SemVer 2.0.0 specification; the harness enumerates every suffix over {0,1,a,-,.,+} up to
// length 5 after "1.2.3" and short suffixes after 15 well- and ill-formed cores (leading zeros, missing / extra / empty
// components).

import (
	"strings"
	"time"
)

const strictGrammarTmpl = `package semver

import (
	"fmt"
	"regexp"
	"testing"
)

func TestVerifReplay(t *testing.T) {
	official := regexp.MustCompile(` + "`" + `^(0|[1-9]\d*)\.(0|[1-9]\d*)\.(0|[1-9]\d*)(?:-((?:0|[1-9]\d*|\d*[a-zA-Z-][0-9a-zA-Z-]*)(?:\.(?:0|[1-9]\d*|\d*[a-zA-Z-][0-9a-zA-Z-]*))*))?(?:\+([0-9a-zA-Z-]+(?:\.[0-9a-zA-Z-]+)*))?$` + "`" + `)
	e := &Ecosystem{}
	alpha := []string{"0", "1", "a", "-", ".", "+"}
	var sufs []string
	cur := []string{""}
	for l := 0; l <= 5; l++ {
		sufs = append(sufs, cur...)
		var nx []string
		for _, s := range cur {
			for _, a := range alpha {
				nx = append(nx, s+a)
			}
		}
		cur = nx
	}
	cores := []string{"1.2.3", "0.0.0", "01.2.3", "1.02.3", "1.2.03", "1.2", "1", "1.2.3.4", "", "1..3", ".2.3", "1.2.", "a.2.3", "1.2.x", "10.20.30", "00.0.0"}
	n, bad := 0, 0
	first := ""
	for _, c := range cores {
		for _, s := range sufs {
			if c != "1.2.3" && len(s) > 2 {
				continue
			}
			str := c + s
			n++
			_, err := e.NewVersion(str)
			if !official.MatchString(str) && err == nil {
				bad++
				if first == "" {
					first = fmt.Sprintf("NewVersion(%q) is accepted, SemVer 2.0.0 rejects it", str)
				}
			}
		}
	}
	if bad > 0 {
		fmt.Printf("VERIF-CX %s (%d of %d)\n", first, bad, n)
		return
	}
	fmt.Printf("VERIF-OK evals=%d\n", n)
}
`

func (w *World) strictGrammarVC() []VC {
	fn := w.funcs["semver.(*Ecosystem).NewVersion"]
	pkg := w.byShort["semver"]
	if fn == nil || pkg == nil {
		return nil
	}
	return []VC{{Name: "semver.(*Ecosystem).NewVersion.strict-grammar.bounded", Prop: "C08", Kind: "bounded.api", Fn: "semver.(*Ecosystem).NewVersion", Pos: w.pos(fn.Pos()),
		Clause:  "semver.NewVersion rejects every string that the SemVer 2.0.0 grammar rejects (leading zeros, empty identifiers, missing components)",
		Bounded: "\"1.2.3\" followed by every string over {0,1,a,-,.,+} up to length 5, and 15 other cores (leading zeros, missing, extra or empty components) followed by every such string up to length 2; oracle: the regular expression published with SemVer 2.0.0",
		Run: func() SolveResult {
			start := time.Now()
			out, _ := runOverlayTest(w, pkg, strictGrammarTmpl, 180*time.Second)
			res := SolveResult{Solver: "enumeration(go test -overlay)", Seconds: time.Since(start).Seconds()}
			for _, ln := range strings.Split(out, "\n") {
				if rest, ok := strings.CutPrefix(ln, "VERIF-CX "); ok {
					res.Status, res.Output = "sat", rest
					res.cx = &Counterexample{Confirmed: true, Observed: rest, How: "real semver.NewVersion against the SemVer 2.0.0 grammar", Output: rest}
					return res
				}
				if strings.HasPrefix(ln, "VERIF-OK") {
					res.Status, res.Output = "unsat", ln
					return res
				}
			}
			res.Status, res.Output = "error", truncate(lastLines(out, 6), 800)
			return res
		}}}
}

package main

// `govc audit`: consistency audit of the assumed library contracts (lib.go).  For every modelled library function the
// real Go function is evaluated on a table of sample arguments; the axioms of that function together with the concrete
// results (as literal facts) are handed to the solvers.  `unsat` means the axioms contradict what the library really
// does on that sample: an unsound assumption.  (`sat`/`unknown` proves nothing, it only fails to refute; the audit is a
// refutation aid for the trusted base, not a proof of it.)  The earlier unsound strings.Index axiom is caught this way.

import (
	"fmt"
	"go/types"
	"os"
	"os/exec"
	"path/filepath"
	"regexp"
	"strconv"
	"strings"
	"time"
	"unicode"
)

type auditCase struct {
	fn   string   // libSigs key
	args []string // string arguments (ints are written in decimal)
	want any      // string | int | bool | []string | nil (error result: non-nil)
}

func auditSamples() []auditCase {
	strs := []string{"", "a", "ab", "1.2.3", " 1 ", "\t1.0\n", ">=1.0", "a,b,,c", "x||y", "1.0.0-rc.1", "v1", "007", "00", "0", "12a", "A.b", "  ", "1 - 2", "日本1", "é"}
	seps := []string{".", ",", "||", " ", "-", "0", "", "ab", " - "}
	var cs []auditCase
	add := func(fn string, want any, args ...string) { cs = append(cs, auditCase{fn, args, want}) }
	for _, s := range strs {
		add("strings.TrimSpace", strings.TrimSpace(s), s)
		add("strings.Fields", strings.Fields(s), s)
		add("strings.ToLower", strings.ToLower(s), s)
		n, err := strconv.Atoi(s)
		add("strconv.Atoi#0", n, s)
		add("strconv.Atoi#1", err == nil, s)
		dig := s != ""
		for i := 0; i < len(s); i++ {
			if s[i] < '0' || s[i] > '9' {
				dig = false
			}
		}
		add("isdigits", dig, s)
		if dig && len(s) <= 18 {
			v, _ := strconv.Atoi(s)
			add("numval", v, s)
		}
		for _, p := range seps {
			add("strings.HasPrefix", strings.HasPrefix(s, p), s, p)
			add("strings.HasSuffix", strings.HasSuffix(s, p), s, p)
			add("strings.Contains", strings.Contains(s, p), s, p)
			add("strings.Index", strings.Index(s, p), s, p)
			add("strings.LastIndex", strings.LastIndex(s, p), s, p)
			add("strings.IndexAny", strings.IndexAny(s, p), s, p)
			add("strings.Compare", strings.Compare(s, p), s, p)
			add("strings.TrimPrefix", strings.TrimPrefix(s, p), s, p)
			add("strings.TrimSuffix", strings.TrimSuffix(s, p), s, p)
			add("strings.TrimLeft", strings.TrimLeft(s, p), s, p)
			if p != "" {
				add("strings.Count", strings.Count(s, p), s, p)
				add("strings.Split", strings.Split(s, p), s, p)
				add("strings.SplitN", strings.SplitN(s, p, 2), s, p, "2")
			}
		}
	}
	for _, n := range []int{0, 1, 9, 10, 42, 100, 65535, 2147483647, 9223372036854775807} {
		add("itoa", strconv.Itoa(n), fmt.Sprint(n))
	}
	for c := 0; c < 256; c += 1 {
		add("unicode.IsDigit", unicode.IsDigit(rune(c)), fmt.Sprint(c))
		if c < 128 {
			add("unicode.IsLetter", unicode.IsLetter(rune(c)), fmt.Sprint(c))
			add("unicode.IsSpace", unicode.IsSpace(rune(c)), fmt.Sprint(c))
		}
	}
	return cs
}

func auditCmd() int {
	w := &World{}
	cases := auditSamples()
	dir := filepath.Join(outDir, "work", "audit")
	os.MkdirAll(dir, 0o755)
	bad, checked, skipped := 0, 0, map[string]int{}
	byFn := map[string][]auditCase{}
	var order []string
	only := os.Getenv("GOVC_AUDIT_FN")
	for _, c := range cases {
		if only != "" && c.fn != only {
			continue
		}
		if _, ok := libSigs[c.fn]; !ok {
			skipped[c.fn]++
			continue
		}
		if len(byFn[c.fn]) == 0 {
			order = append(order, c.fn)
		}
		byFn[c.fn] = append(byFn[c.fn], c)
	}
	for _, fn := range order {
		sig := libSigs[fn]
		// one script per function and per chunk of samples (small scripts keep the solvers decisive)
		cs := byFn[fn]
		for at := 0; at < len(cs); at += 12 {
			chunk := cs[at:min(len(cs), at+12)]
			g := newGen(w, nil)
			var facts []string
			for _, c := range chunk {
				var args []Term
				for i, a := range c.args {
					if sig.args[i] == "Int" {
						args = append(args, intLit(a))
					} else {
						args = append(args, g.lit(a))
					}
				}
				app := g.libApp(fn, sig.args, sig.res, args)
				switch v := c.want.(type) {
				case string:
					facts = append(facts, fmt.Sprintf("(assert (= %s %s))", app, g.lit(v)))
				case int:
					facts = append(facts, fmt.Sprintf("(assert (= %s %s))", app, intLit(fmt.Sprint(v))))
				case bool:
					if sig.res == "Err" {
						if v {
							facts = append(facts, fmt.Sprintf("(assert (= %s err_nil))", app))
						} else {
							facts = append(facts, fmt.Sprintf("(assert (not (= %s err_nil)))", app))
						}
					} else if v {
						facts = append(facts, fmt.Sprintf("(assert %s)", app))
					} else {
						facts = append(facts, fmt.Sprintf("(assert (not %s))", app))
					}
				case []string:
					g.sortOf(types.NewSlice(types.Typ[types.String]))
					facts = append(facts, fmt.Sprintf("(assert (= (len_L_Str %s) %d))", app, len(v)))
					for i, e := range v {
						facts = append(facts, fmt.Sprintf("(assert (= (select (arr_L_Str %s) (+ (off_L_Str %s) %d)) %s))", app, app, i, g.lit(e)))
					}
				}
			}
			script := g.script(append(facts, "(check-sat)"))
			file := filepath.Join(dir, sanitizeFile(fmt.Sprintf("%s.%d", fn, at))+".smt2")
			res := solve(script, file, 5*time.Second, false)
			checked += len(chunk)
			if res.Status == "unsat" {
				bad++
				fmt.Printf("AUDIT-FAIL %s: the axioms contradict the real results on samples %d..%d (script %s)\n", fn, at, at+len(chunk)-1, file)
			}
		}
	}
	var sk []string
	for k, n := range skipped {
		sk = append(sk, fmt.Sprintf("%s(%d)", k, n))
	}
	fmt.Printf("audit: %d library functions, %d sample evaluations checked against their axioms, %d contradictions; not modelled as library symbols: %s\n", len(order), checked, bad, strings.Join(sk, " "))
	if only == "" || only == "splitnosep" {
		// the two cross-function facts behind the recursion measure of pypi.parseSpecifier, against the real library
		strs := []string{"", "a", "a,b", " a , b ", ",", ",,", "1.0,<2", ">=1, <2 ,!=1.5", "x||y", "a b", " , ", "é,日"}
		n := 0
		for si, str := range strs {
			for pi, sep := range []string{",", "||", " ", ", "} {
				g := newGen(w, nil)
				g.libDep("splitnosep")
				g.sortOf(types.NewSlice(types.Typ[types.String]))
				sl, pl := g.lit(str), g.lit(sep)
				parts := strings.Split(str, sep)
				sp := "(L_strings_Split " + sl + " " + pl + ")"
				facts := []string{fmt.Sprintf("(assert (= (len_L_Str %s) %d))", sp, len(parts))}
				for i, e := range parts {
					el := g.lit(e)
					facts = append(facts, fmt.Sprintf("(assert (= (select (arr_L_Str %s) (+ (off_L_Str %s) %d)) %s))", sp, sp, i, el))
					if strings.Contains(e, sep) {
						facts = append(facts, fmt.Sprintf("(assert (L_strings_Contains %s %s))", el, pl))
					} else {
						facts = append(facts, fmt.Sprintf("(assert (not (L_strings_Contains %s %s)))", el, pl))
					}
					n++
				}
				tl := g.lit(strings.TrimSpace(str))
				facts = append(facts, fmt.Sprintf("(assert (= (L_strings_TrimSpace %s) %s))", sl, tl))
				for _, x := range []struct {
					t Term
					v bool
				}{{tl, strings.Contains(strings.TrimSpace(str), sep)}, {sl, strings.Contains(str, sep)}} {
					if x.v {
						facts = append(facts, fmt.Sprintf("(assert (L_strings_Contains %s %s))", x.t, pl))
					} else {
						facts = append(facts, fmt.Sprintf("(assert (not (L_strings_Contains %s %s)))", x.t, pl))
					}
				}
				file := filepath.Join(dir, fmt.Sprintf("splitnosep.%d.%d.smt2", si, pi))
				if res := solve(g.script(append(facts, "(check-sat)")), file, 5*time.Second, false); res.Status == "unsat" {
					bad++
					fmt.Printf("AUDIT-FAIL splitnosep: the cross-function facts contradict the library on Split(%q, %q) (script %s)\n", str, sep, file)
				}
			}
		}
		fmt.Printf("audit: Split/Contains/TrimSpace cross facts checked on %d parts of %d strings x 4 separators\n", n, len(strs))
	}
	if only == "" || only == "runes" {
		// the range-over-string model (rune_count/rune_pos/rune_val/rune_of) against real iteration, invalid UTF-8 included
		nr := 0
		for si, str := range []string{"", "a", "1.2", "日本1", "é", "a\xffb", "\xc3", "a\xc3", "\xe6\x97z", "x\u00e9y\U0001F600z", "\x80\x80"} {
			g := newGen(w, nil)
			g.needRunes()
			sl := g.lit(str)
			var facts []string
			k := 0
			for pos, r := range str {
				facts = append(facts, fmt.Sprintf("(assert (= (rune_pos %s %d) %d))", sl, k, pos), fmt.Sprintf("(assert (= (rune_val %s %d) %d))", sl, k, r))
				k++
			}
			facts = append(facts, fmt.Sprintf("(assert (= (rune_count %s) %d))", sl, k))
			for i := 0; i < len(str); i++ {
				ord, kk := 0, 0
				for pos := range str {
					if pos <= i {
						ord = kk
					}
					kk++
				}
				facts = append(facts, fmt.Sprintf("(assert (= (rune_of %s %d) %d))", sl, i, ord), fmt.Sprintf("(assert (= (str_at %s %d) %d))", sl, i, str[i]))
				nr++
			}
			file := filepath.Join(dir, fmt.Sprintf("runes.%d.smt2", si))
			res := solve(g.script(append(facts, "(check-sat)")), file, 5*time.Second, false)
			if res.Status == "unsat" {
				bad++
				fmt.Printf("AUDIT-FAIL range-over-string model contradicts real iteration of %q (script %s)\n", str, file)
			}
		}
		fmt.Printf("audit: range-over-string model checked on %d byte positions\n", nr)
	}
	if only == "" || only == "regexp" {
		np, ne, nb := auditRegexFacts(repoDir)
		fmt.Printf("audit: %d regular-expression literals, %d matches checked against the derived facts, %d contradictions\n", np, ne, nb)
		bad += nb
	}
	if only == "" || only == "native" {
		bad += auditNative()
	}
	if bad > 0 {
		return 1
	}
	return 0
}

// auditNative compares the transcriptions of the native ordering algorithms used as oracles by the bounded C09/C10/C12
// obligations with the native tools where the image happens to have them (dpkg, Maven's ComparableVersion, Python's
// packaging).  The registered checks never call these tools; the audit only refutes a wrong transcription.
func auditNative() int {
	w, err := loadWorld(repoDir)
	if err != nil {
		fmt.Println("audit: native: cannot load the repository:", err)
		return 0
	}
	os.Setenv("VERIF_DUMP", "1")
	defer os.Unsetenv("VERIF_DUMP")
	type pair struct {
		a, b  string
		sign  int
		class string
	}
	parse := func(out string) []pair {
		var ps []pair
		for _, ln := range strings.Split(out, "\n") {
			rest, ok := strings.CutPrefix(ln, "VERIF-PAIR ")
			if !ok {
				continue
			}
			var p pair
			if _, err := fmt.Sscanf(rest, "%q %q %d %s", &p.a, &p.b, &p.sign, &p.class); err == nil {
				ps = append(ps, p)
			}
		}
		return ps
	}
	bad := 0
	report := func(tool string, p pair, native int) {
		bad++
		if bad <= 12 {
			fmt.Printf("AUDIT-FAIL native %s: %q vs %q: the transcription says %d, %s says %d (class %s)\n", tool, p.a, p.b, p.sign, tool, native, p.class)
		}
	}
	// Debian: dpkg --compare-versions
	if _, err := exec.LookPath("dpkg"); err == nil {
		r := runRefOrder(w, "C10")
		ps := parse(r.out)
		for _, p := range ps {
			native := 0
			if exec.Command("dpkg", "--compare-versions", p.a, "lt", p.b).Run() == nil {
				native = -1
			} else if exec.Command("dpkg", "--compare-versions", p.a, "gt", p.b).Run() == nil {
				native = 1
			}
			if native != p.sign {
				report("dpkg", p, native)
			}
		}
		fmt.Printf("audit: native dpkg --compare-versions: %d sampled pairs of the C10 pool compared with the verrevcmp transcription\n", len(ps))
	} else {
		fmt.Println("audit: native dpkg: not installed, skipped")
	}
	// Maven: ComparableVersion's main prints "a OP b" for consecutive arguments
	jar := ""
	for _, c := range []string{"/usr/share/java/maven-artifact-3.x.jar", "/usr/share/maven/lib/maven-artifact-3.x.jar"} {
		if _, err := os.Stat(c); err == nil {
			jar = c
			break
		}
	}
	if _, err := exec.LookPath("java"); err == nil && jar != "" {
		r := runRefOrder(w, "C12")
		ps := parse(r.out)
		n := 0
		for at := 0; at < len(ps); at += 150 {
			chunk := ps[at:min(len(ps), at+150)]
			args := []string{"-cp", jar, "org.apache.maven.artifact.versioning.ComparableVersion"}
			for _, p := range chunk {
				args = append(args, p.a, p.b)
			}
			out, err := exec.Command("java", args...).CombinedOutput()
			if err != nil {
				fmt.Println("audit: native maven: java failed:", truncate(string(out), 200))
				break
			}
			// lines "   a OP b" appear after every argument but the first: the odd ones (a_i vs b_i) are ours
			var cmps []string
			for _, ln := range strings.Split(string(out), "\n") {
				if strings.HasPrefix(ln, "   ") {
					cmps = append(cmps, strings.TrimSpace(ln))
				}
			}
			for i, p := range chunk {
				if 2*i >= len(cmps) {
					break
				}
				f := strings.Fields(cmps[2*i])
				if len(f) != 3 || f[0] != p.a || f[2] != p.b {
					continue // a version text with a blank or an unexpected echo: not comparable this way
				}
				native := map[string]int{"<": -1, "==": 0, ">": 1}[f[1]]
				n++
				if native != p.sign {
					report("ComparableVersion", p, native)
				}
			}
		}
		fmt.Printf("audit: native Maven ComparableVersion (%s): %d sampled pairs of the C12 pool compared with the transcription\n", jar, n)
	} else {
		fmt.Println("audit: native maven: java or maven-artifact jar not found, skipped")
	}
	// PyPI: packaging.version in the tooling venv
	if py, err := exec.LookPath("python3-vt"); err == nil {
		_, out := runPep440(w)
		ps := parse(out)
		var in strings.Builder
		for _, p := range ps {
			fmt.Fprintf(&in, "%s\t%s\n", p.a, p.b)
		}
		cmd := exec.Command(py, "-c", "import sys\nfrom packaging.version import Version\nfor ln in sys.stdin:\n    a,b=ln.rstrip('\\n').split('\\t')\n    x,y=Version(a),Version(b)\n    print(-1 if x<y else (1 if x>y else 0))\n")
		cmd.Stdin = strings.NewReader(in.String())
		res, err := cmd.Output()
		if err != nil {
			fmt.Println("audit: native pypi: packaging not usable, skipped:", err)
		} else {
			lines := strings.Fields(string(res))
			for i, p := range ps {
				if i >= len(lines) {
					break
				}
				native, _ := strconv.Atoi(lines[i])
				if native != p.sign {
					report("packaging.version", p, native)
				}
			}
			fmt.Printf("audit: native Python packaging.version: %d sampled pairs of the C09 pool compared with the PEP 440 key of the harness\n", len(lines))
		}
	} else {
		fmt.Println("audit: native pypi: python3-vt not found, skipped")
	}
	if bad > 12 {
		fmt.Printf("audit: native: %d differences in all\n", bad)
	}
	return bad
}

// auditRegexFacts checks the facts derived from every regular-expression literal of the repository (rx.go) against the
// real regexp engine on sample inputs: capture count, anchoring, minimal length, per-group length range, byte alphabet,
// finite language, and "always participates".
func auditRegexFacts(repo string) (patterns, evals, bad int) {
	lits := map[string]bool{}
	var samples []string
	filepath.Walk(repo, func(path string, info os.FileInfo, err error) error {
		if err != nil || info.IsDir() || !strings.HasSuffix(path, ".go") || strings.Contains(path, "/.git/") {
			return nil
		}
		b, _ := os.ReadFile(path)
		src := string(b)
		for _, marker := range []string{"regexp.MustCompile(`", "regexp.MustCompile(\""} {
			rest := src
			for {
				i := strings.Index(rest, marker)
				if i < 0 {
					break
				}
				rest = rest[i+len(marker)-1:]
				q := rest[0]
				j := 1
				for j < len(rest) && rest[j] != q {
					if q == '"' && rest[j] == '\\' {
						j++
					}
					j++
				}
				if j < len(rest) {
					if s, err := strconv.Unquote(rest[:j+1]); err == nil && !strings.HasSuffix(path, "_test.go") {
						lits[s] = true
					}
				}
				rest = rest[j:]
			}
		}
		// string literals of the sources and tests as sample inputs
		for _, f := range strings.Split(src, "\"") {
			if len(f) > 0 && len(f) <= 24 && !strings.ContainsAny(f, "\n\\") {
				samples = append(samples, f)
			}
		}
		return nil
	})
	seen := map[string]bool{}
	var uniq []string
	for _, s := range append(samples, "", "1", "1.2", "1.2.3", "v1.2.3", "1.2.3-rc.1+b", ">=1.0", "~> 1", "1:2.0-3", "[1.0,2.0)", "a", "1.0.0 - 2", "==1.*") {
		if !seen[s] {
			seen[s] = true
			uniq = append(uniq, s)
		}
	}
	if len(uniq) > 4000 {
		uniq = uniq[:4000]
	}
	for pat := range lits {
		ri := analyseRegex(pat)
		if ri.err != nil {
			continue
		}
		re, err := regexp.Compile(pat)
		if err != nil {
			continue
		}
		patterns++
		report := func(msg string, in string) {
			bad++
			if bad <= 10 {
				fmt.Printf("AUDIT-FAIL regexp %q on %q: %s\n", pat, in, msg)
			}
		}
		for _, in := range uniq {
			m := re.FindStringSubmatch(in)
			evals++
			if m == nil {
				continue
			}
			if len(m) != ri.nsub+1 {
				report(fmt.Sprintf("%d captures, derived %d", len(m)-1, ri.nsub), in)
				continue
			}
			if ri.anchored && (m[0] != in || len(in) < ri.minLen) {
				report("anchored pattern: whole match differs from the input or is shorter than the derived minimum", in)
			}
			idx := re.FindStringSubmatchIndex(in)
			for k := 1; k <= ri.nsub; k++ {
				g := ri.groups[k]
				part := idx[2*k] >= 0
				if g.always && !part {
					report(fmt.Sprintf("group %d derived as always participating does not participate", k), in)
				}
				if !part {
					continue
				}
				if !(len(m[k]) == 0 && !g.always) && (len(m[k]) < g.min || (g.max >= 0 && len(m[k]) > g.max)) {
					report(fmt.Sprintf("group %d = %q outside the derived length range [%d,%d]", k, m[k], g.min, g.max), in)
				}
				if g.alpha != nil {
					for i := 0; i < len(m[k]); i++ {
						if !g.alpha[m[k][i]] {
							report(fmt.Sprintf("group %d = %q has a byte outside the derived alphabet", k, m[k]), in)
							break
						}
					}
				}
				if g.lang != nil {
					ok := m[k] == "" && !g.always
					for _, w := range g.lang {
						if w == m[k] {
							ok = true
						}
					}
					if !ok {
						report(fmt.Sprintf("group %d = %q not in the derived finite language %q", k, m[k], g.lang), in)
					}
				}
			}
		}
	}
	return
}

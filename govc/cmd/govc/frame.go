package main

// Frame obligations (C19): every write of every repository function hits an
// object allocated by the same activation (or by a callee that returns a fresh
// object), no package-level variable is written outside the package
// initialiser, there is no goroutine / channel / select / map iteration, and
// every library callee is on a reviewed list of pure (or receiver-local)
// functions.  The judgment is a flow-insensitive freshness analysis over the
// SSA of the real code; each write site is one named obligation.

import (
	"fmt"
	"go/types"
	"sort"
	"strings"

	"golang.org/x/tools/go/ssa"
)

// pure (deterministic, no shared-state effects) library entry points, reviewed by hand.
var pureLib = map[string]bool{
	"strings.TrimSpace": true, "strings.Split": true, "strings.SplitN": true, "strings.Fields": true, "strings.FieldsFunc": true,
	"strings.HasPrefix": true, "strings.HasSuffix": true, "strings.Contains": true, "strings.ContainsAny": true, "strings.Index": true,
	"strings.LastIndex": true, "strings.Count": true, "strings.Compare": true, "strings.ToLower": true, "strings.TrimPrefix": true,
	"strings.TrimSuffix": true, "strings.TrimLeft": true, "strings.ReplaceAll": true, "strings.Join": true, "strings.Map": true,
	"strconv.Atoi": true, "strconv.ParseUint": true, "unicode.IsDigit": true, "unicode.IsLetter": true, "unicode.IsSpace": true,
	"fmt.Sprintf": true, "fmt.Errorf": true, "time.Parse": true, "(time.Time).Compare": true,
	"(*regexp.Regexp).FindStringSubmatch": true, "(*regexp.Regexp).MatchString": true, // documented safe for concurrent use
	"slices.Contains": true, "math/big.NewInt": true,
}

// library calls that write only through their receiver / first argument (which must then be activation-local)
var receiverLocalLib = map[string]bool{
	"(*strings.Builder).WriteRune": true, "(*strings.Builder).WriteString": true, "(*strings.Builder).WriteByte": true,
	"(*strings.Builder).Reset": true, "(*strings.Builder).Len": true, "(*strings.Builder).String": true,
	"(*math/big.Int).SetString": true, "(*math/big.Int).Cmp": true, "(*math/big.Int).Int64": true, "(*math/big.Int).Sign": true,
	"slices.SortFunc": true,
}

// effects allowed only in package cmd (the CLI front end)
var cliOnlyLib = map[string]bool{"fmt.Fprintf": true, "os.Exit": true, "regexp.MustCompile": false}

// purePackageFunc: package-level functions of the text/number packages take and return values (strings, numbers,
// runes) and touch no memory the caller can see; the exceptions write into a slice argument.
func purePackageFunc(f *ssa.Function) bool {
	if f.Signature.Recv() != nil || f.Pkg == nil {
		return false
	}
	switch f.Pkg.Pkg.Path() {
	case "strings", "strconv", "unicode", "unicode/utf8", "math", "math/bits", "errors", "cmp":
	default:
		return false
	}
	if strings.HasPrefix(f.Name(), "Append") || strings.HasPrefix(f.Name(), "Encode") || f.Name() == "NewReplacer" || f.Name() == "NewReader" {
		return false
	}
	return true
}

// historyLib: library state that makes a result depend on more than the arguments.
func historyLib(f *ssa.Function) bool {
	if f.Pkg == nil {
		return false
	}
	switch f.Pkg.Pkg.Path() {
	case "math/rand", "math/rand/v2", "crypto/rand", "sync", "sync/atomic", "os", "os/exec", "io/ioutil", "net", "net/http", "runtime", "unsafe", "reflect":
		return true
	case "time":
		return f.Name() == "Now" || f.Name() == "Since" || f.Name() == "Until" || f.Name() == "Sleep" || f.Name() == "After" || f.Name() == "Tick"
	}
	return false
}

type frameResult struct {
	unreviewed bool
	name   string
	ok     bool
	reason string
	pos    string
	fn     string
}

func pointerish(t types.Type) bool {
	switch t.Underlying().(type) {
	case *types.Pointer, *types.Slice, *types.Map, *types.Signature, *types.Interface, *types.Chan:
		return true
	}
	return false
}

type frameAnalysis struct {
	w        *World
	retFresh map[*ssa.Function]bool
}

func (w *World) frameCheck() []frameResult {
	fa := &frameAnalysis{w: w, retFresh: map[*ssa.Function]bool{}}
	fns := w.repoFunctions()
	for _, f := range fns {
		fa.retFresh[f] = true
	}
	// greatest fixpoint of "returns only fresh objects"
	for changed := true; changed; {
		changed = false
		for _, f := range fns {
			if !fa.retFresh[f] {
				continue
			}
			nf := fa.nonFresh(f)
			for _, b := range f.Blocks {
				for _, in := range b.Instrs {
					if r, ok := in.(*ssa.Return); ok {
						for _, v := range r.Results {
							if pointerish(v.Type()) && nf[v] && !isErrorType(v.Type()) {
								fa.retFresh[f] = false
								changed = true
							}
						}
					}
				}
			}
		}
	}
	var out []frameResult
	for _, f := range fns {
		out = append(out, fa.check(f)...)
	}
	sort.Slice(out, func(i, j int) bool { return out[i].name < out[j].name })
	return out
}

func isErrorType(t types.Type) bool {
	if n, ok := t.(*types.Named); ok && n.Obj().Pkg() == nil && n.Obj().Name() == "error" {
		return true
	}
	return false
}

// nonFresh computes the set of pointer-ish values of f that may refer to memory not allocated by this activation.
func (fa *frameAnalysis) nonFresh(f *ssa.Function) map[ssa.Value]bool {
	nf := map[ssa.Value]bool{}
	taintedRoot := map[ssa.Value]bool{} // local roots into which a non-fresh pointer was stored
	for _, p := range f.Params {
		if pointerish(p.Type()) {
			nf[p] = true
		}
	}
	for _, fv := range f.FreeVars {
		nf[fv] = true
	}
	isNF := func(v ssa.Value) bool {
		switch x := v.(type) {
		case *ssa.Global:
			return true
		case *ssa.Const:
			return false
		case *ssa.Function:
			return false
		default:
			_ = x
		}
		return nf[v]
	}
	for changed := true; changed; {
		changed = false
		mark := func(v ssa.Value) {
			if !nf[v] {
				nf[v] = true
				changed = true
			}
		}
		for _, b := range f.Blocks {
			for _, in := range b.Instrs {
				switch x := in.(type) {
				case *ssa.FieldAddr:
					if isNF(x.X) {
						mark(x)
					}
				case *ssa.IndexAddr:
					if isNF(x.X) {
						mark(x)
					}
				case *ssa.Slice:
					if isNF(x.X) {
						mark(x)
					}
				case *ssa.Phi:
					for _, e := range x.Edges {
						if isNF(e) {
							mark(x)
						}
					}
				case *ssa.ChangeType:
					if isNF(x.X) {
						mark(x)
					}
				case *ssa.ChangeInterface:
					if isNF(x.X) {
						mark(x)
					}
				case *ssa.MakeInterface:
					if pointerish(x.X.Type()) && isNF(x.X) {
						mark(x)
					}
				case *ssa.TypeAssert:
					if isNF(x.X) {
						mark(x)
					}
				case *ssa.Extract:
					if isNF(x.Tuple) && pointerish(x.Type()) {
						mark(x)
					}
				case *ssa.MakeClosure:
					// closure object itself is fresh
				case *ssa.UnOp:
					if x.Op.String() == "*" && pointerish(x.Type()) {
						// load of a pointer-ish value: non-fresh if the location is non-fresh or its local root was tainted
						if isNF(x.X) {
							mark(x)
						} else if r := storeRoot(x.X); r != nil && taintedRoot[r] {
							mark(x)
						} else if storeRoot(x.X) == nil {
							mark(x)
						}
					}
				case *ssa.Lookup:
					if pointerish(x.Type()) {
						if isNF(x.X) {
							mark(x)
						} else if r := storeRoot(x.X); r != nil && taintedRoot[r] {
							mark(x)
						}
					}
				case *ssa.Store:
					if pointerish(x.Val.Type()) && isNF(x.Val) {
						if r := storeRoot(x.Addr); r != nil && !taintedRoot[r] {
							taintedRoot[r] = true
							changed = true
						}
					}
				case *ssa.MapUpdate:
					if pointerish(x.Value.Type()) && isNF(x.Value) {
						if r := storeRoot(x.Map); r != nil && !taintedRoot[r] {
							taintedRoot[r] = true
							changed = true
						}
					}
				case *ssa.Call:
					cc := &x.Call
					if bi, ok := cc.Value.(*ssa.Builtin); ok {
						if bi.Name() == "append" && isNF(cc.Args[0]) {
							mark(x)
						}
						if bi.Name() == "append" && len(cc.Args) > 1 {
							// appended pointer-ish elements taint the result's contents: treat result as tainted root
							if sl, ok := cc.Args[1].Type().Underlying().(*types.Slice); ok && pointerish(sl.Elem()) && isNF(cc.Args[1]) {
								// elements loaded later come through Load of IndexAddr(x): handled via nf of x? keep simple: mark
								mark(x)
							}
						}
						continue
					}
					if !pointerish(x.Type()) {
						if _, isTuple := x.Type().(*types.Tuple); !isTuple {
							continue
						}
					}
					if callee := cc.StaticCallee(); callee != nil {
						if isRepoPkg(pkgOf(callee)) {
							key := callee
							if o := callee.Origin(); o != nil {
								key = o
							}
							if fresh, known := fa.retFresh[key]; known && !fresh {
								mark(x)
							}
							continue
						}
						// library results are fresh (strings.Split etc. allocate), except values passed through
						continue
					}
					if cc.IsInvoke() {
						// interface method (generic code): results are fresh per the interface contract of constructors;
						// String()/Compare/Contains return non-pointer values
						continue
					}
					mark(x) // unknown dynamic callee
				}
			}
		}
	}
	return nf
}

func (fa *frameAnalysis) check(f *ssa.Function) []frameResult {
	w := fa.w
	key := w.fnKey(f)
	isInit := f.Name() == "init" && f.Synthetic != ""
	inCmd := strings.HasPrefix(key, "cmd.")
	nf := fa.nonFresh(f)
	var out []frameResult
	n := map[string]int{}
	add := func(kind string, ok bool, reason string, in ssa.Instruction) {
		n[kind]++
		out = append(out, frameResult{name: fmt.Sprintf("%s.frame.%s#%d", key, kind, n[kind]), ok: ok, reason: reason, pos: w.pos(in.Pos()), fn: key})
	}
	for _, b := range f.Blocks {
		for _, in := range b.Instrs {
			switch x := in.(type) {
			case *ssa.Store:
				if _, isGlobal := x.Addr.(*ssa.Global); isGlobal {
					add("global", isInit, "store to package-level variable "+x.Addr.Name(), in)
					continue
				}
				root := storeRoot(x.Addr)
				ok := root != nil || !nf[x.Addr]
				if root == nil && nf[x.Addr] {
					ok = false
				}
				if root == nil && !nf[x.Addr] {
					// address derived from a fresh non-local-alloc value (e.g. field of a freshly returned object)
					ok = true
				}
				reason := ""
				if !ok {
					reason = "store through an address that may belong to the caller or to shared state: " + x.Addr.String()
				}
				add("store", ok, reason, in)
			case *ssa.MapUpdate:
				root := storeRoot(x.Map)
				ok := (root != nil || !nf[x.Map])
				if _, isLoadOfGlobal := x.Map.(*ssa.UnOp); isLoadOfGlobal && root == nil {
					ok = isInit
				}
				reason := ""
				if !ok {
					reason = "update of a map that is not local to this activation: " + x.Map.String()
				}
				add("mapupdate", ok, reason, in)
			case *ssa.Go, *ssa.Select, *ssa.Send, *ssa.MakeChan, *ssa.Defer, *ssa.RunDefers:
				add("concurrency", false, fmt.Sprintf("%T is outside the purity argument", in), in)
			case *ssa.Range:
				if _, isMap := x.X.Type().Underlying().(*types.Map); isMap {
					add("maprange", false, "iteration over a map has unspecified order", in)
				}
			case *ssa.Call:
				cc := &x.Call
				if bi, ok := cc.Value.(*ssa.Builtin); ok {
					if bi.Name() == "append" {
						ok := !nf[cc.Args[0]]
						if c, isConst := cc.Args[0].(*ssa.Const); isConst && c.Value == nil {
							ok = true
						}
						reason := ""
						if !ok {
							reason = "append to a slice that may share its backing array with the caller: " + cc.Args[0].String()
						}
						add("append", ok, reason, in)
					}
					continue
				}
				callee := cc.StaticCallee()
				if callee == nil || isRepoPkg(pkgOf(callee)) {
					continue
				}
				name := callee.String()
				if o := callee.Origin(); o != nil {
					name = o.String()
				}
				switch {
				case pureLib[name] || purePackageFunc(callee):
				case receiverLocalLib[name]:
					ok := len(cc.Args) > 0 && !nf[cc.Args[0]]
					reason := ""
					if !ok {
						reason = name + " writes through its first argument, which is not local to this activation"
					}
					add("libwrite", ok, reason, in)
				case name == "regexp.MustCompile":
					// compiling is pure; the result is stored in a global only by init (checked by frame.global)
				case (name == "fmt.Fprintf" || name == "os.Exit") && inCmd:
				case historyLib(callee):
					if isInit {
						continue
					}
					add("libcall", false, "call of "+name+" reads or writes state outside the call (clock, environment, random source, shared memory)", in)
				default:
					if isInit {
						continue
					}
					// not reviewed: the purity argument does not cover this call; reported as undecided, not as a violation
					n["unreviewed"]++
					out = append(out, frameResult{name: fmt.Sprintf("%s.frame.unreviewed#%d", key, n["unreviewed"]), ok: false, unreviewed: true,
						reason: "call of " + name + " is not on the reviewed list of pure library functions", pos: w.pos(in.Pos()), fn: key})
				}
			}
		}
	}
	if len(out) == 0 {
		out = append(out, frameResult{name: key + ".frame.nowrites", ok: true, fn: key, pos: w.pos(f.Pos())})
	}
	return out
}

// frameVCs wraps the analysis results as obligations of the check pipeline.
func (w *World) frameVCs() []VC {
	var vcs []VC
	for _, r := range w.frameCheck() {
		r := r
		kind := "frame"
		if r.unreviewed {
			kind = "frame.unreviewed"
		}
		vcs = append(vcs, VC{Name: r.name, Prop: "C19", Kind: kind, Fn: r.fn, Pos: r.pos, Clause: "writes only to activation-fresh memory; no global writes outside init; reviewed pure library callees",
			Run: func() SolveResult {
				if r.ok {
					return SolveResult{Status: "unsat", Solver: "govc-dataflow"}
				}
				if r.unreviewed {
					return SolveResult{Status: "unknown", Solver: "govc-dataflow", Output: r.reason + " at " + r.pos}
				}
				return SolveResult{Status: "sat", Solver: "govc-dataflow", Output: r.reason + " at " + r.pos}
			}})
	}
	return vcs
}

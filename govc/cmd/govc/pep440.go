package main

// C09 bounded API obligations: the real pypi NewVersion+Compare against the PEP 440 ordering key (epoch, release with
// trailing zeros stripped, pre-release with the dev-only / final special cases, post, dev, local), computed in the
// harness from the components each text is built from.  Two classes: pairs whose local labels are equal ("public") and
// pairs whose local labels differ ("local-label").

import (
	"strings"
	"sync"
	"time"
)

const pep440BoundedTmpl = `package pypi

import (
	"fmt"
	"os"
	"strings"
	"testing"
)

type verifPEP struct {
	epoch   int
	release []int
	preKind int // 0 none, 1 a, 2 b, 3 rc
	preNum  int
	post    int // -1 none
	dev     int // -1 none
	local   []string
	text    string
}

const verifInf = 1 << 40

// packaging.version._cmpkey
func verifKey(v verifPEP) (pre [2]int, post int, dev int) {
	switch {
	case v.preKind == 0 && v.post < 0 && v.dev >= 0:
		pre = [2]int{-verifInf, 0}
	case v.preKind == 0:
		pre = [2]int{verifInf, 0}
	default:
		pre = [2]int{v.preKind, v.preNum}
	}
	post = v.post
	if post < 0 {
		post = -verifInf
	}
	dev = v.dev
	if dev < 0 {
		dev = verifInf
	}
	return
}

func verifSgn(x int) int {
	if x < 0 {
		return -1
	}
	if x > 0 {
		return 1
	}
	return 0
}

func verifIsNum(s string) (int, bool) {
	n := 0
	for i := 0; i < len(s); i++ {
		if s[i] < '0' || s[i] > '9' {
			return 0, false
		}
		n = n*10 + int(s[i]-'0')
	}
	return n, len(s) > 0
}

func verifLocalCmp(a, b []string) int {
	// no local label sorts before any local label; segments: numeric ones above alphanumeric ones, numbers by value,
	// strings lexicographically; a shorter label that is a prefix sorts first
	if len(a) == 0 || len(b) == 0 {
		return verifSgn(len(a) - len(b))
	}
	for i := 0; i < len(a) && i < len(b); i++ {
		x, xn := verifIsNum(a[i])
		y, yn := verifIsNum(b[i])
		switch {
		case xn && yn:
			if x != y {
				return verifSgn(x - y)
			}
		case xn:
			return 1
		case yn:
			return -1
		default:
			if a[i] != b[i] {
				if a[i] < b[i] {
					return -1
				}
				return 1
			}
		}
	}
	return verifSgn(len(a) - len(b))
}

func verifRef(a, b verifPEP) int {
	if a.epoch != b.epoch {
		return verifSgn(a.epoch - b.epoch)
	}
	ra, rb := a.release, b.release
	for len(ra) > 0 && ra[len(ra)-1] == 0 {
		ra = ra[:len(ra)-1]
	}
	for len(rb) > 0 && rb[len(rb)-1] == 0 {
		rb = rb[:len(rb)-1]
	}
	for i := 0; i < len(ra) && i < len(rb); i++ {
		if ra[i] != rb[i] {
			return verifSgn(ra[i] - rb[i])
		}
	}
	if len(ra) != len(rb) {
		return verifSgn(len(ra) - len(rb))
	}
	pa, sa, da := verifKey(a)
	pb, sb, db := verifKey(b)
	if pa != pb {
		if pa[0] != pb[0] {
			return verifSgn(pa[0] - pb[0])
		}
		return verifSgn(pa[1] - pb[1])
	}
	if sa != sb {
		return verifSgn(sa - sb)
	}
	if da != db {
		return verifSgn(da - db)
	}
	return verifLocalCmp(a.local, b.local)
}

func TestVerifReplay(t *testing.T) {
	e := &Ecosystem{}
	var pool []verifPEP
	pres := []string{"", "a", "b", "rc"}
	for _, ep := range []int{0, 1} {
		for _, rel := range [][]int{{1, 0}, {1, 0, 0}, {1, 1}, {2}, {1, 0, 1}, {0, 9}} {
			for pk := 0; pk < 4; pk++ {
				for _, pn := range []int{1, 2} {
					if pk == 0 && pn == 2 {
						continue
					}
					for _, post := range []int{-1, 0, 1} {
						for _, dev := range []int{-1, 1, 2} {
							for _, loc := range [][]string{nil, {"abc"}, {"1"}, {"abc", "1"}} {
								if ep == 1 && (len(loc) > 0 || post == 0 || dev == 2) {
									continue
								}
								v := verifPEP{epoch: ep, release: rel, preKind: pk, preNum: pn, post: post, dev: dev, local: loc}
								s := ""
								if ep > 0 {
									s = fmt.Sprintf("%d!", ep)
								}
								for i, r := range rel {
									if i > 0 {
										s += "."
									}
									s += fmt.Sprint(r)
								}
								if pk > 0 {
									s += fmt.Sprintf("%s%d", pres[pk], pn)
								}
								if post >= 0 {
									s += fmt.Sprintf(".post%d", post)
								}
								if dev >= 0 {
									s += fmt.Sprintf(".dev%d", dev)
								}
								for i, l := range loc {
									if i == 0 {
										s += "+" + l
									} else {
										s += "." + l
									}
								}
								v.text = s
								pool = append(pool, v)
							}
						}
					}
				}
			}
		}
	}
	if len(pool) > 700 {
		step := len(pool)/700 + 1
		var nx []verifPEP
		for i := 0; i < len(pool); i += step {
			nx = append(nx, pool[i])
		}
		pool = nx
	}
	// alternate spellings PEP 440 normalises (alpha/beta/c, rev/r, a dot before the marker): same key, different text
	{
		alt := map[string][]string{"a": {"alpha", ".a"}, "b": {"beta", ".b"}, "rc": {"c", ".rc", ".c"}}
		var extra []verifPEP
		for i, p := range pool {
			if p.preKind == 0 || len(p.local) > 0 || i%3 != 0 {
				continue
			}
			mark := fmt.Sprintf("%s%d", pres[p.preKind], p.preNum)
			for _, a := range alt[pres[p.preKind]] {
				q := p
				q.text = strings.Replace(p.text, mark, fmt.Sprintf("%s%d", a, p.preNum), 1)
				if p.post >= 0 && len(extra)%2 == 0 {
					q.text = strings.Replace(q.text, ".post", ".rev", 1)
				}
				extra = append(extra, q)
			}
		}
		if len(extra) > 160 {
			step := len(extra)/160 + 1
			var nx []verifPEP
			for i := 0; i < len(extra); i += step {
				nx = append(nx, extra[i])
			}
			extra = nx
		}
		pool = append(pool, extra...)
	}
	type pv struct {
		p verifPEP
		v *Version
	}
	var parsed []pv
	for _, p := range pool {
		if v, err := e.NewVersion(p.text); err == nil {
			parsed = append(parsed, pv{p, v})
		}
	}
	n := map[string]int{}
	bad := map[string]int{}
	first := map[string]string{}
	for _, a := range parsed {
		for _, b := range parsed {
			class := "public"
			if fmt.Sprint(a.p.local) != fmt.Sprint(b.p.local) {
				class = "local-label"
			}
			n[class]++
			want := verifRef(a.p, b.p)
			if got := verifSgn(a.v.Compare(b.v)); got != want {
				bad[class]++
				if first[class] == "" {
					first[class] = fmt.Sprintf("Compare(%q, %q) = %d, the PEP 440 key gives %d", a.p.text, b.p.text, got, want)
				}
			}
		}
	}
	if os.Getenv("VERIF_DUMP") != "" {
		total := len(parsed) * len(parsed)
		step := total/4000 + 1
		if step%2 == 0 {
			step++
		}
		for k := 0; k < total; k += step {
			a, b := parsed[k/len(parsed)], parsed[k%len(parsed)]
			fmt.Printf("VERIF-PAIR %q %q %d all\n", a.p.text, b.p.text, verifRef(a.p, b.p))
		}
	}
	for _, c := range []string{"public", "local-label"} {
		if bad[c] > 0 {
			fmt.Printf("VERIF-CLASS %s CX %s (%d of %d pairs differ)\n", c, first[c], bad[c], n[c])
		} else {
			fmt.Printf("VERIF-CLASS %s OK evals=%d pool=%d\n", c, n[c], len(parsed))
		}
	}
}
`

var (
	pep440Mu  sync.Mutex
	pep440Res map[string]string
	pep440Out string
)

func runPep440(w *World) (map[string]string, string) {
	pep440Mu.Lock()
	defer pep440Mu.Unlock()
	if pep440Res != nil {
		return pep440Res, pep440Out
	}
	pep440Res = map[string]string{}
	pkg := w.byShort["pypi"]
	if pkg == nil {
		return pep440Res, ""
	}
	out, _ := runOverlayTest(w, pkg, pep440BoundedTmpl, 240*time.Second)
	pep440Out = out
	for _, ln := range strings.Split(out, "\n") {
		if rest, ok := strings.CutPrefix(ln, "VERIF-CLASS "); ok {
			if k := strings.Index(rest, " "); k > 0 {
				pep440Res[rest[:k]] = rest[k+1:]
			}
		}
	}
	return pep440Res, out
}

func (w *World) pep440VCs() []VC {
	fn := w.funcs["pypi.(*Version).Compare"]
	if fn == nil {
		return nil
	}
	var vcs []VC
	for _, c := range []string{"public", "local-label"} {
		c := c
		vcs = append(vcs, VC{Name: "pypi.(*Version).Compare.pep440-order[" + c + "].bounded", Prop: "C09", Kind: "bounded.api", Fn: "pypi.(*Version).Compare", Pos: w.pos(fn.Pos()),
			Clause:  "Compare(NewVersion(x), NewVersion(y)) has the sign of the PEP 440 ordering key (" + c + " pairs)",
			Bounded: "texts built from epoch {0,1} x 6 release tuples x pre {none,a1,a2,b1,b2,rc1,rc2} x post {none,0,1} x dev {none,1,2} x local {none,abc,1,abc.1} (sampled to about 700, all pairs)",
			Run: func() SolveResult {
				start := time.Now()
				r, out := runPep440(w)
				res := SolveResult{Solver: "enumeration(go test -overlay)", Seconds: time.Since(start).Seconds()}
				ln, ok := r[c]
				switch {
				case !ok:
					res.Status, res.Output = "error", truncate(lastLines(out, 6), 800)
				case strings.HasPrefix(ln, "OK"):
					res.Status, res.Output = "unsat", ln
				default:
					res.Status, res.Output = "sat", ln
					res.cx = &Counterexample{Confirmed: true, Observed: strings.TrimPrefix(ln, "CX "), How: "real pypi NewVersion+Compare against the PEP 440 ordering key", Output: ln}
				}
				return res
			}})
	}
	return vcs
}

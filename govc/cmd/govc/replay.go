package main

// Replay / falsification on the real code.
//
// A failed obligation is an *undischarged proof*; to attach a concrete failing
// input we generate an in-package Go test, inject it with `go test -overlay`
// (nothing is written to /repo) and let it search for inputs on which the real
// functions violate the clause.  The same harness runs the bounded stand-ins
// (exhaustive enumeration up to a stated bound) for functions outside the
// verifier's reach.

import (
	"bytes"
	"context"
	"encoding/json"
	"fmt"
	"go/ast"
	goparser "go/parser"
	"go/token"
	"go/types"
	"os"
	"os/exec"
	"path/filepath"
	"sort"
	"strconv"
	"strings"
	"time"

	"golang.org/x/tools/go/ssa"
)

type Counterexample struct {
	Confirmed bool     `json:"confirmed_on_real_code"`
	Inputs    []string `json:"inputs,omitempty"`
	Observed  string   `json:"observed,omitempty"`
	How       string   `json:"how"`
	TestFile  string   `json:"test_file,omitempty"`
	Output    string   `json:"output,omitempty"`
}

// writeReplay records a failed obligation and tries to obtain a failing input on the real code.
func writeReplay(w *World, prop string, r vcResult) replayResult {
	dir := filepath.Join(outDir, "replays", prop)
	os.MkdirAll(dir, 0o755)
	path := filepath.Join(dir, sanitizeFile(r.vc.Name)+".json")
	smt := filepath.Join(dir, sanitizeFile(r.vc.Name)+".smt2")
	if r.vc.Script != "" {
		os.WriteFile(smt, []byte(r.vc.Script), 0o644)
	}
	rec := map[string]any{
		"property": prop, "obligation": r.vc.Name, "kind": r.vc.Kind, "function": r.vc.Fn, "clause": r.vc.Clause,
		"source": r.vc.Pos, "solver_status": r.res.Status, "solver_output": truncate(r.res.Output, 4000),
		"per_solver": r.res.All, "smt_script": smt,
	}
	confirmed := false
	if r.res.cx != nil {
		rec["counterexample"] = r.res.cx
		confirmed = r.res.cx.Confirmed
	} else if cx := searchCounterexample(w, prop, r); cx != nil {
		rec["counterexample"] = cx
		confirmed = cx.Confirmed
	}
	b, _ := json.MarshalIndent(rec, "", " ")
	os.WriteFile(path, b, 0o644)
	return replayResult{Path: path, Confirmed: confirmed}
}

// ---------------------------------------------------------------- overlay test runner

// runOverlayTest injects testSrc as <pkgdir>/verif_replay_test.go and runs it.
func runOverlayTest(w *World, pkg *ssa.Package, testSrc string, timeout time.Duration) (string, error) {
	return runOverlayTestArgs(w, pkg, testSrc, timeout)
}

func runOverlayTestArgs(w *World, pkg *ssa.Package, testSrc string, timeout time.Duration, extra ...string) (string, error) {
	dir := w.pkgDir(pkg)
	tmp, err := os.MkdirTemp("", "govc-replay-*")
	if err != nil {
		return "", err
	}
	defer os.RemoveAll(tmp)
	tf := filepath.Join(tmp, "verif_replay_test.go")
	os.WriteFile(tf, []byte(testSrc), 0o644)
	ov := map[string]any{"Replace": map[string]string{filepath.Join(dir, "verif_replay_test.go"): tf}}
	ob, _ := json.Marshal(ov)
	ovf := filepath.Join(tmp, "overlay.json")
	os.WriteFile(ovf, ob, 0o644)
	ctx, cancel := context.WithTimeout(context.Background(), timeout+30*time.Second)
	defer cancel()
	args := []string{"test", "-overlay", ovf, "-vet=off", "-count=1", "-timeout", fmt.Sprintf("%ds", int(timeout.Seconds())), "-run", "^TestVerifReplay$", "-v"}
	args = append(args, extra...)
	args = append(args, ".")
	cmd := exec.CommandContext(ctx, "go", args...)
	cmd.Dir = dir
	cmd.Env = append(os.Environ(), "GOFLAGS=-mod=mod", "GOPROXY=off")
	var out bytes.Buffer
	cmd.Stdout = &out
	cmd.Stderr = &out
	err = cmd.Run()
	if strings.Contains(out.String(), "[build failed]") {
		fmt.Fprintln(os.Stderr, "WARNING: replay harness did not build:", truncate(out.String(), 600))
	}
	return out.String(), err
}

// harvestStrings collects string literals from the package's sources (tests included) and testdata.
func harvestStrings(w *World, pkg *ssa.Package, tests bool) []string {
	dir := w.pkgDir(pkg)
	seen := map[string]bool{}
	var out []string
	add := func(s string) {
		if len(s) > 40 || seen[s] {
			return
		}
		seen[s] = true
		out = append(out, s)
	}
	ents, _ := os.ReadDir(dir)
	fset := token.NewFileSet()
	for _, e := range ents {
		if !strings.HasSuffix(e.Name(), ".go") {
			continue
		}
		if strings.HasSuffix(e.Name(), "_test.go") && !tests {
			continue
		}
		f, err := goparser.ParseFile(fset, filepath.Join(dir, e.Name()), nil, 0)
		if err != nil {
			continue
		}
		ast.Inspect(f, func(n ast.Node) bool {
			if bl, ok := n.(*ast.BasicLit); ok && bl.Kind == token.STRING {
				if s, err := strconv.Unquote(bl.Value); err == nil {
					add(s)
				}
			}
			return true
		})
	}
	if tests {
		td := filepath.Join(dir, "testdata")
		filepath.Walk(td, func(p string, info os.FileInfo, err error) error {
			if err != nil || info.IsDir() || info.Size() > 1<<20 {
				return nil
			}
			b, _ := os.ReadFile(p)
			for _, f := range strings.Fields(string(b)) {
				add(f)
			}
			return nil
		})
	}
	sort.Strings(out)
	return out
}

// apiPool: candidate version strings = literals of the package's tests and testdata, plus
// cheap syntactic variants (zero-padded components, huge digit runs, source keywords glued on).
func apiPool(w *World, pkg *ssa.Package, extra []string) []string {
	tests := harvestStrings(w, pkg, true)
	srcLits := harvestStrings(w, pkg, false)
	seen := map[string]bool{}
	var out []string
	add := func(s string) {
		if !seen[s] && len(s) <= 60 {
			seen[s] = true
			out = append(out, s)
		}
	}
	bases := []string{"1", "1.0", "1.0.0", "1.2.3", "v1.0.1", "2.0", "1.0.0-1"}
	// the core of the pool comes first (consumers that sub-sample keep a prefix whole): short bases with zero-like,
	// zero-padded and over-long numeric components appended, prepended and joined by '-'
	for _, b := range bases[:4] {
		add(b)
		for _, d := range []string{"0", "00", "01", "1", "2", "99999999999999999999"} {
			add(b + "." + d)
			add(b + "-" + d)
		}
	}
	for _, s := range tests {
		add(s)
	}
	for _, s := range extra {
		add(s)
	}
	var kws []string
	for _, k := range srcLits {
		if len(k) >= 1 && len(k) <= 10 && !strings.ContainsAny(k, " %\n\t") {
			kws = append(kws, k)
		}
	}
	digits := []string{"00000000000000000000001", "2", "99999999999999999999", "01", "1", "18446744073709551616", "0", "00"}
	for _, b := range bases {
		for _, d := range digits {
			add(d)
			add(b + "." + d)
			add(d + "." + b)
			add(b + "-" + d)
		}
		for _, k := range kws {
			for _, sep := range []string{"", "-", ".", "_", "~", "+"} {
				add(b + sep + k)
				add(b + sep + k + "1")
			}
		}
	}
	// shorthand operators glued to short versions (boundary arities)
	for _, op := range []string{"^", "~", "~>", "~>", "~=", ">=", "<=", "<", ">", "=", "==", "!=", "[", "(", "*", ""} {
		for _, v := range []string{"0", "1", "0.0", "0.1", "0.0.0", "0.0.1", "1.2", "1.2.3", "x", "1.x", "*"} {
			add(op + v)
			add(op + " " + v)
		}
	}
	// letter-case variants of test literals
	for _, s := range tests {
		if len(s) == 0 || len(s) > 24 {
			continue
		}
		up := []byte(s)
		changed := false
		for i := 0; i < len(up); i++ {
			if up[i] >= 'a' && up[i] <= 'z' && (i == 0 || !(up[i-1] >= 'a' && up[i-1] <= 'z' || up[i-1] >= 'A' && up[i-1] <= 'Z')) {
				up[i] -= 32
				changed = true
			}
		}
		if changed {
			add(string(up))
		}
	}
	// zero-padded variants of test literals
	for _, s := range tests {
		if len(s) == 0 || len(s) > 20 {
			continue
		}
		for i := 0; i < len(s); i++ {
			if s[i] >= '0' && s[i] <= '9' && (i == 0 || s[i-1] == '.' || s[i-1] == '-') {
				add(s[:i] + "0" + s[i:])
			}
		}
	}
	return out
}

func goStringSlice(ss []string) string {
	var b strings.Builder
	b.WriteString("[]string{")
	for i, s := range ss {
		if i > 0 {
			b.WriteString(", ")
		}
		b.WriteString(strconv.Quote(s))
	}
	b.WriteString("}")
	return b.String()
}

// ---------------------------------------------------------------- law search (C01 style)

const lawTestTmpl = `package %s

import (
	"fmt"
	"testing"
)

func verifEnum(alpha string, maxLen int) []string {
	out := []string{""}
	prev := []string{""}
	for l := 1; l <= maxLen; l++ {
		var cur []string
		for _, p := range prev {
			for i := 0; i < len(alpha); i++ {
				cur = append(cur, p+string(alpha[i]))
			}
		}
		out = append(out, cur...)
		prev = cur
	}
	return out
}

func TestVerifReplay(t *testing.T) {
	%s
	n := len(pool)
	fmt.Printf("VERIF-POOL %%d\n", n)
	evals := 0
	sgn := func(x int) int { if x < 0 { return -1 }; if x > 0 { return 1 }; return 0 }
	_ = sgn
	// cache
	c := make([][]int8, n)
	for i := range c {
		c[i] = make([]int8, n)
		for j := range c[i] {
			r := cmp(pool[i], pool[j])
			evals++
			if r < -1 || r > 1 {
				fmt.Printf("VERIF-CX range a=%%s b=%%s -> %%d\n", show(pool[i]), show(pool[j]), r)
				return
			}
			c[i][j] = int8(r)
		}
	}
	for i := 0; i < n; i++ {
		if c[i][i] != 0 {
			fmt.Printf("VERIF-CX refl a=%%s -> %%d\n", show(pool[i]), c[i][i])
			return
		}
		for j := 0; j < n; j++ {
			if c[i][j] != -c[j][i] {
				fmt.Printf("VERIF-CX antisym a=%%s b=%%s -> ab=%%d ba=%%d\n", show(pool[i]), show(pool[j]), c[i][j], c[j][i])
				return
			}
		}
	}
	for i := 0; i < n; i++ {
		for j := 0; j < n; j++ {
			if c[i][j] > 0 {
				continue
			}
			for k := 0; k < n; k++ {
				evals++
				if c[j][k] > 0 {
					continue
				}
				if c[i][k] > 0 || ((c[i][j] < 0 || c[j][k] < 0) && c[i][k] >= 0) {
					fmt.Printf("VERIF-CX trans a=%%s b=%%s c=%%s -> ab=%%d bc=%%d ac=%%d\n", show(pool[i]), show(pool[j]), show(pool[k]), c[i][j], c[j][k], c[i][k])
					return
				}
			}
		}
	}
	fmt.Printf("VERIF-OK evals=%%d pool=%%d\n", evals, n)
}
`

// lawHarness builds the pool/cmp/show prologue for function fn's comparator clause.
// mode "api": pool of parsed versions; mode "direct": pool over the parameter types.
func lawHarness(w *World, fn *ssa.Function, cl *Clause, alpha string, maxLen int, extraPool []string) (string, string, bool) {
	pkg := fn.Pkg
	idx := map[string]int{}
	for i, p := range fn.Params {
		idx[p.Name()] = i
	}
	// receiver-style Compare on *Version: API pool
	if len(cl.left) == 1 && len(fn.Params) == 2 {
		pt := fn.Params[idx[cl.left[0]]].Type()
		if p, ok := pt.(*types.Pointer); ok {
			if nt, ok := p.Elem().(*types.Named); ok && nt.Obj().Name() == "Version" {
				var src string
				if alpha != "" {
					src = fmt.Sprintf("strs := verifEnum(%q, %d)\n", alpha, maxLen)
				} else {
					src = "strs := " + goStringSlice(apiPool(w, pkg, extraPool)) + "\n"
				}
				strsDecl := src
				src = `	var pool []*Version
	e := &Ecosystem{}
	seen := map[string]bool{}
	for _, s := range strs {
		if v, err := e.NewVersion(s); err == nil && v != nil && !seen[s] {
			seen[s] = true
			pool = append(pool, v)
		}
	}
	if %s && len(pool) > 700 { head := 60; step := (len(pool)-head)/640 + 1; nx := append([]*Version{}, pool[:head]...); for i := head; i < len(pool); i += step { nx = append(nx, pool[i]) }; pool = nx }
	cmp := func(a, b *Version) int { return a.Compare(b) }
	show := func(a *Version) string { return fmt.Sprintf("%%q", a.String()) }
`
				// the pool literal is kept out of the format string: a harvested text with a % would corrupt it
				src = strsDecl + fmt.Sprintf(src, fmt.Sprint(alpha == ""))
				return src, "api: versions parsed by the real NewVersion, compared by the real Compare", true
			}
		}
	}
	// direct: all left params must be string/int
	type pinfo struct {
		name string
		typ  types.Type
	}
	var ps []pinfo
	for _, nm := range cl.left {
		ps = append(ps, pinfo{nm, fn.Params[idx[nm]].Type()})
	}
	var fields, ctor []string
	for i, p := range ps {
		switch {
		case isString(p.typ):
			fields = append(fields, fmt.Sprintf("f%d string", i))
		case isInteger(p.typ):
			fields = append(fields, fmt.Sprintf("f%d int", i))
		default:
			return "", "", false
		}
	}
	if fn.Signature.Recv() != nil || len(fn.Params) != 2*len(ps) {
		return "", "", false
	}
	var src strings.Builder
	fmt.Fprintf(&src, "type tup struct { %s }\n", strings.Join(fields, "; "))
	if alpha != "" {
		fmt.Fprintf(&src, "\tstrs := verifEnum(%q, %d)\n", alpha, maxLen)
	} else {
		hs := harvestStrings(w, pkg, false)
		var short []string
		for _, s := range hs {
			if len(s) <= 12 && !strings.ContainsAny(s, "%\n") {
				short = append(short, s)
			}
		}
		short = append(short, "0", "1", "2", "9", "10", "01", "007", "a", "b", "rc", "-5", "+5", "99999999999999999999", "00000000000000000000001", "18446744073709551616", "~", "~a", "z", "alpha", "Alpha", "beta", "Beta", "rc", "RC", "x", "X", "beta.1", "Beta.1", "rc.1.a", "rc.1.b")
		short = append(short, extraPool...)
		if len(short) > 90 {
			short = short[:90]
		}
		fmt.Fprintf(&src, "\tstrs := %s\n", goStringSlice(short))
	}
	src.WriteString("\tints := []int{-1, 0, 1, 2, 3, 9, 10, 99, 1000}\n\t_ = ints\n\tvar pool []tup\n")
	// cartesian product (bounded)
	src.WriteString("\tpool = []tup{{}}\n")
	for i, p := range ps {
		dom := "strs"
		conv := "s"
		if isInteger(p.typ) {
			dom = "ints"
		}
		fmt.Fprintf(&src, "\t{ var nx []tup; for _, t0 := range pool { for _, s := range %s { t1 := t0; t1.f%d = %s; nx = append(nx, t1) } }; pool = nx }\n", dom, i, conv)
	}
	src.WriteString("\tif len(pool) > 600 { step := len(pool)/600 + 1; var nx []tup; for i := 0; i < len(pool); i += step { nx = append(nx, pool[i]) }; pool = nx }\n")
	args := make([]string, len(fn.Params))
	for i := range ps {
		args[idx[cl.left[i]]] = fmt.Sprintf("a.f%d", i)
		args[idx[cl.right[i]]] = fmt.Sprintf("b.f%d", i)
	}
	_ = ctor
	fmt.Fprintf(&src, "\tcmp := func(a, b tup) int { return %s(%s) }\n", fn.Name(), strings.Join(args, ", "))
	src.WriteString("\tshow := func(a tup) string { return fmt.Sprintf(\"%#v\", a) }\n")
	return src.String(), "direct: the real " + fn.Name() + " on enumerated argument tuples", true
}

func runLawSearch(w *World, fn *ssa.Function, cl *Clause, alpha string, maxLen int, timeout time.Duration, extraPool []string) *Counterexample {
	prologue, how, ok := lawHarness(w, fn, cl, alpha, maxLen, extraPool)
	if !ok && alpha != "" {
		// bounded stand-in for a helper whose arguments cannot be enumerated directly: enumerate at the API level
		if cmpFn := w.funcs[shortPkg(fn.Pkg.Pkg)+".(*Version).Compare"]; cmpFn != nil {
			if cct := w.contractOf(cmpFn); cct != nil {
				for _, c2 := range cct.clauses {
					if c2.kind == "comparator" {
						prologue, how, ok = lawHarness(w, cmpFn, c2, alpha, maxLen, extraPool)
						how += " (stand-in for " + fn.Name() + ")"
						fn = cmpFn
						break
					}
				}
			}
		}
	}
	if !ok {
		return nil
	}
	src := fmt.Sprintf(lawTestTmpl, fn.Pkg.Pkg.Name(), prologue)
	out, err := runOverlayTest(w, fn.Pkg, src, timeout)
	cx := &Counterexample{How: how, Output: truncate(lastLines(out, 12), 2000)}
	for _, ln := range strings.Split(out, "\n") {
		if strings.HasPrefix(ln, "VERIF-CX ") {
			cx.Confirmed = true
			cx.Observed = strings.TrimPrefix(ln, "VERIF-CX ")
			return cx
		}
		if strings.HasPrefix(ln, "VERIF-OK") {
			cx.Observed = ln
			return cx
		}
	}
	if err != nil {
		cx.Observed = "harness did not complete: " + err.Error()
	}
	return cx
}

func lastLines(s string, n int) string {
	ls := strings.Split(strings.TrimSpace(s), "\n")
	if len(ls) > n {
		ls = ls[len(ls)-n:]
	}
	return strings.Join(ls, "\n")
}

// searchCounterexample dispatches on the obligation kind.
func searchCounterexample(w *World, prop string, r vcResult) *Counterexample {
	fn := w.funcs[r.vc.Fn]
	if fn == nil {
		return nil
	}
	if strings.HasPrefix(r.vc.Kind, "law.") {
		ct := w.contractOf(fn)
		if ct == nil {
			return nil
		}
		var last *Counterexample
		hasReq := false
		for _, cl := range ct.clauses {
			if cl.kind == "requires" {
				hasReq = true
			}
		}
		for _, cl := range ct.clauses {
			if cl.kind == "comparator" && !(hasReq && fn.Signature.Recv() == nil) {
				if cx := runLawSearch(w, fn, cl, "", 0, 120*time.Second, nil); cx != nil {
					if cx.Confirmed {
						return cx
					}
					last = cx
				}
			}
		}
		defer func() { _ = last }()
		// fall back to the package's API-level Compare
		if cmpFn := w.funcs[shortPkg(fn.Pkg.Pkg)+".(*Version).Compare"]; cmpFn != nil && cmpFn != fn {
			if cct := w.contractOf(cmpFn); cct != nil {
				for _, cl := range cct.clauses {
					if cl.kind == "comparator" {
						return runLawSearch(w, cmpFn, cl, "", 0, 120*time.Second, nil)
					}
				}
			}
		}
		return last
	}
	if f := propFalsifiers[prop]; f != nil {
		return f(w, fn, r)
	}
	return nil
}

var propFalsifiers = map[string]func(w *World, fn *ssa.Function, r vcResult) *Counterexample{
	"C19": raceFalsifier,
	"C06": panicFalsifier,
	"C18": textFalsifier,
	"C15": cliFalsifier,
	"C08": semverFalsifier,
	"C09": pep440Falsifier,
	"C02": rangeOpsFalsifier,
	"C20": orderPosFalsifier,
	"C14": apkFalsifier,
	"C10": func(w *World, fn *ssa.Function, r vcResult) *Counterexample { return refOrderFalsifier(w, "C10") },
	"C11": func(w *World, fn *ssa.Function, r vcResult) *Counterexample { return refOrderFalsifier(w, "C11") },
	"C12": func(w *World, fn *ssa.Function, r vcResult) *Counterexample { return refOrderFalsifier(w, "C12") },
	"C13": func(w *World, fn *ssa.Function, r vcResult) *Counterexample { return refOrderFalsifier(w, "C13") },
	"C05": shorthandFalsifier,
	"C17": versValidFalsifier,
	"C07": func(w *World, fn *ssa.Function, r vcResult) *Counterexample {
		res := runSortHarness(w)
		cx := &Counterexample{How: "real CLI run(<ecosystem> sort ...) on lists of valid versions (all permutations up to length 6, seeded shuffles of 64)", Output: truncate(lastLines(res.out, 8), 1500), Observed: "no difference observed"}
		known := map[string]bool{}
		for _, f := range loadFindings() {
			known[f.Obligation] = true
		}
		for _, eco := range sortEcosystems {
			for _, k := range []string{"multiset", "ordered", "classes", "invalid-input"} {
				if st := res.status[eco+"/"+k]; st[0] == "FAIL" && !cx.Confirmed && !known["cmd.run.c07.sort["+eco+"/"+k+"].bounded"] {
					cx.Confirmed, cx.Observed = true, eco+" "+k+": "+st[1]
				}
			}
		}
		return cx
	},
}

const rangeTestTmpl = `package %s

import (
	"fmt"
	"testing"
)

func TestVerifReplay(t *testing.T) {
	strs := %s
	e := &Ecosystem{}
	var vs []*Version
	seen := map[string]bool{}
	for _, s := range strs {
		if v, err := e.NewVersion(s); err == nil && len(vs) < 14 && !seen[s] {
			bad := false
			for _, c := range s {
				if c == ' ' || c == ',' || c == '|' || c == '<' || c == '>' || c == '=' || c == '!' || c == '~' || c == '^' || c == '*' {
					bad = true
				}
			}
			if !bad {
				seen[s] = true
				vs = append(vs, v)
			}
		}
	}
	rel := map[string]func(int) bool{
		"=": func(c int) bool { return c == 0 }, "==": func(c int) bool { return c == 0 }, "!=": func(c int) bool { return c != 0 },
		"<": func(c int) bool { return c < 0 }, "<=": func(c int) bool { return c <= 0 }, ">": func(c int) bool { return c > 0 }, ">=": func(c int) bool { return c >= 0 },
		"<<": func(c int) bool { return c < 0 }, ">>": func(c int) bool { return c > 0 },
	}
	type cons struct{ text string; op string; v *Version }
	var singles []cons
	n := 0
	for op := range rel {
		for _, v := range vs {
			text := op + v.String()
			r, err := e.NewVersionRange(text)
			if err != nil {
				continue
			}
			singles = append(singles, cons{text, op, v})
			for _, p := range vs {
				n++
				if got, want := r.Contains(p), rel[op](p.Compare(v)); got != want {
					fmt.Printf("VERIF-CX range %%q contains %%q = %%v, but Compare(%%q, %%q) = %%d\n", text, p.String(), got, p.String(), v.String(), p.Compare(v))
					return
				}
			}
		}
	}
	if len(singles) > 40 {
		step := len(singles)/40 + 1
		var nx []cons
		for i := 0; i < len(singles); i += step {
			nx = append(nx, singles[i])
		}
		singles = nx
	}
	holds := func(c cons, p *Version) bool { return rel[c.op](p.Compare(c.v)) }
	for _, sep := range []string{",", ", ", " "} {
		// a separator counts as AND syntax when a two-comparator list parses and splits as expected on a sanity pair
		for _, a := range singles {
			for _, b := range singles {
				for _, c := range singles[:3] {
					text := a.text + sep + b.text + sep + c.text
					r, err := e.NewVersionRange(text)
					if err != nil {
						continue
					}
					for _, p := range vs {
						n++
						want := holds(a, p) && holds(b, p) && holds(c, p)
						if got := r.Contains(p); got != want {
							fmt.Printf("VERIF-CX range %%q (AND list) contains %%q = %%v, the comparators say %%v\n", text, p.String(), got, want)
							return
						}
					}
				}
			}
		}
	}
	for _, a := range singles {
		for _, b := range singles[:min(len(singles), 6)] {
			for _, c := range singles[:min(len(singles), 4)] {
				text := a.text + " || " + b.text + " || " + c.text
				r, err := e.NewVersionRange(text)
				if err != nil {
					continue
				}
				for _, p := range vs {
					n++
					want := holds(a, p) || holds(b, p) || holds(c, p)
					if got := r.Contains(p); got != want {
						fmt.Printf("VERIF-CX range %%q (OR groups) contains %%q = %%v, the comparators say %%v\n", text, p.String(), got, want)
						return
					}
				}
			}
		}
	}
	fmt.Printf("VERIF-OK evals=%%d versions=%%d comparators=%%d\n", n, len(vs), len(singles))
}
`

func rangeFalsifier(w *World, fn *ssa.Function, r vcResult) *Counterexample {
	pkg := fn.Pkg
	if pkg == nil || pkg.Pkg.Scope().Lookup("Ecosystem") == nil || pkg.Pkg.Scope().Lookup("VersionRange") == nil {
		return nil
	}
	src := fmt.Sprintf(rangeTestTmpl, pkg.Pkg.Name(), goStringSlice(harvestStrings(w, pkg, true)))
	out, _ := runOverlayTest(w, pkg, src, 180*time.Second)
	cx := &Counterexample{How: "real NewVersionRange/Contains on comparator ranges (single, AND lists, || groups) against Compare", Output: truncate(lastLines(out, 8), 2000)}
	for _, ln := range strings.Split(out, "\n") {
		if strings.HasPrefix(ln, "VERIF-CX ") {
			cx.Confirmed = true
			cx.Observed = strings.TrimPrefix(ln, "VERIF-CX ")
			return cx
		}
	}
	cx.Observed = "no difference observed"
	return cx
}

const orderTestTmpl = `package %s

import (
	"fmt"
	"testing"
)

func TestVerifReplay(t *testing.T) {
	strs := %s
	e := &Ecosystem{}
	var vs []*Version
	var rs []*VersionRange
	var conj []bool
	for _, s := range strs {
		if v, err := e.NewVersion(s); err == nil && len(vs) < 260 {
			vs = append(vs, v)
		}
		if r, err := e.NewVersionRange(s); err == nil && len(rs) < 400 {
			rs = append(rs, r)
			c := true
			for i := 0; i+1 < len(s); i++ {
				if s[i] == '|' || (s[i] == '!' && s[i+1] == '=') {
					c = false
				}
			}
			conj = append(conj, c)
		}
	}
	n := 0
	for i, a := range vs {
		for j, b := range vs {
			if i == j {
				continue
			}
			ab := a.Compare(b)
			if ab == 0 {
				for _, r := range rs {
					n++
					if r.Contains(a) != r.Contains(b) {
						fmt.Printf("VERIF-CX %%q and %%q compare equal but range %%q contains them %%v / %%v\n", a.String(), b.String(), r.String(), r.Contains(a), r.Contains(b))
						return
					}
				}
			}
		}
	}
	for k, r := range rs {
		if !conj[k] {
			continue
		}
		var in []*Version
		for _, v := range vs {
			if r.Contains(v) {
				in = append(in, v)
			}
		}
		if len(in) > 12 {
			in = in[:12]
		}
		for _, a := range in {
			for _, c := range in {
				if a.Compare(c) > 0 {
					continue
				}
				for _, b := range vs {
					n++
					if a.Compare(b) <= 0 && b.Compare(c) <= 0 && !r.Contains(b) {
						fmt.Printf("VERIF-CX range %%q contains %%q and %%q but not %%q which lies between them\n", r.String(), a.String(), c.String(), b.String())
						return
					}
				}
			}
		}
	}
	fmt.Printf("VERIF-OK evals=%%d versions=%%d ranges=%%d\n", n, len(vs), len(rs))
}
`

func orderFalsifier(w *World, fn *ssa.Function, r vcResult) *Counterexample {
	pkg := fn.Pkg
	if pkg == nil || pkg.Pkg.Scope().Lookup("Ecosystem") == nil || pkg.Pkg.Scope().Lookup("VersionRange") == nil {
		return nil
	}
	pool := apiPool(w, pkg, nil)
	// spelling variants that usually compare equal: build metadata, v prefix, trailing zero component, exact pins with metadata
	var extra []string
	for _, s := range harvestStrings(w, pkg, true) {
		if len(s) > 0 && len(s) < 16 && s[0] >= '0' && s[0] <= '9' && !strings.ContainsAny(s, " ,|<>=!~^*[]()") {
			extra = append(extra, s+"+sha.abc", s+"+sha.def", "v"+s, s+".0", "["+s+"+sha.abc]", "="+s+"+sha.abc", "=="+s, "="+s, ">="+s+",<="+s)
		}
	}
	if len(extra) > 360 {
		extra = extra[:360]
	}
	pool = append(extra, pool...)
	src := fmt.Sprintf(orderTestTmpl, pkg.Pkg.Name(), goStringSlice(pool))
	out, _ := runOverlayTest(w, pkg, src, 180*time.Second)
	cx := &Counterexample{How: "real API: Compare-equal pairs must agree on every range; conjunction-only ranges must be convex", Output: truncate(lastLines(out, 8), 2000)}
	for _, ln := range strings.Split(out, "\n") {
		if strings.HasPrefix(ln, "VERIF-CX ") {
			cx.Confirmed = true
			cx.Observed = strings.TrimPrefix(ln, "VERIF-CX ")
			return cx
		}
	}
	cx.Observed = "no difference observed"
	return cx
}

const pep440TestTmpl = `package pypi

import (
	"fmt"
	"testing"
)

func TestVerifReplay(t *testing.T) {
	e := &Ecosystem{}
	var strs []string
	for _, ep := range []string{"", "1!"} {
		for _, rel := range []string{"1.0", "1.0.0", "1.1", "2"} {
			for _, pre := range []string{"", "a1", "b2", "rc1"} {
				for _, post := range []string{"", ".post1"} {
					for _, dev := range []string{"", ".dev1"} {
						for _, loc := range []string{"", "+abc"} {
							strs = append(strs, ep+rel+pre+post+dev+loc)
						}
					}
				}
			}
		}
	}
	var vs []*Version
	var ok []string
	for i, s := range strs {
		_ = i
		if v, err := e.NewVersion(s); err == nil {
			vs = append(vs, v)
			ok = append(ok, s)
		}
	}
	for i, a := range vs {
		for j, b := range vs {
			fmt.Printf("VERIF-PAIR\t%%s\t%%s\t%%d\n", ok[i], ok[j], a.Compare(b))
		}
	}
}
`

const pep440Py = `
import sys
from packaging.version import Version, InvalidVersion
n = 0
for line in sys.stdin:
    if not line.startswith("VERIF-PAIR\t"):
        continue
    _, a, b, c = line.rstrip("\n").split("\t")
    try:
        va, vb = Version(a), Version(b)
    except InvalidVersion:
        continue
    want = (va > vb) - (va < vb)
    n += 1
    got = int(c)
    got = (got > 0) - (got < 0)
    if got != want:
        print("VERIF-CX Compare(%r, %r) = %s, PEP 440 (packaging) says %d" % (a, b, c, want))
        sys.exit(0)
print("VERIF-OK evals=%d" % n)
`

// pep440Falsifier compares the real pypi Compare with the reference packaging library (present in this sandbox as
// python3-vt); it is a replay aid only and is skipped when the reference is absent.
func pep440Falsifier(w *World, fn *ssa.Function, r vcResult) *Counterexample {
	pkg := w.byShort["pypi"]
	if pkg == nil {
		return nil
	}
	out, _ := runOverlayTest(w, pkg, strings.ReplaceAll(pep440TestTmpl, "%%", "%"), 120*time.Second)
	cx := &Counterexample{How: "real pypi NewVersion+Compare on a PEP 440 grammar grid, signs compared with packaging.version.Version"}
	py, err := exec.LookPath("python3-vt")
	if err != nil {
		cx.Observed = "reference packaging library not available"
		return cx
	}
	cmd := exec.Command(py, "-c", pep440Py)
	cmd.Stdin = strings.NewReader(out)
	var ob bytes.Buffer
	cmd.Stdout = &ob
	cmd.Stderr = &ob
	cmd.Run()
	cx.Output = truncate(lastLines(ob.String(), 5), 1500)
	for _, ln := range strings.Split(ob.String(), "\n") {
		if strings.HasPrefix(ln, "VERIF-CX ") {
			cx.Confirmed = true
			cx.Observed = strings.TrimPrefix(ln, "VERIF-CX ")
			return cx
		}
	}
	cx.Observed = "no difference observed"
	return cx
}

const semverTestTmpl = `package %s

import (
	"fmt"
	"strconv"
	"strings"
	"testing"
)

func verifIsNum(s string) bool {
	if s == "" {
		return false
	}
	for i := 0; i < len(s); i++ {
		if s[i] < '0' || s[i] > '9' {
			return false
		}
	}
	return true
}

// SemVer 2.0.0 section 11 on pre-release strings ("" = release)
func verifPreCmp(a, b string) int {
	switch {
	case a == "" && b == "":
		return 0
	case a == "":
		return 1
	case b == "":
		return -1
	}
	x, y := strings.Split(a, "."), strings.Split(b, ".")
	for i := 0; i < len(x) && i < len(y); i++ {
		xn, yn := verifIsNum(x[i]), verifIsNum(y[i])
		switch {
		case xn && yn:
			p, _ := strconv.ParseUint(x[i], 10, 64)
			q, _ := strconv.ParseUint(y[i], 10, 64)
			if p != q {
				if p < q {
					return -1
				}
				return 1
			}
		case xn:
			return -1
		case yn:
			return 1
		default:
			if x[i] != y[i] {
				if x[i] < y[i] {
					return -1
				}
				return 1
			}
		}
	}
	switch {
	case len(x) < len(y):
		return -1
	case len(x) > len(y):
		return 1
	}
	return 0
}

func TestVerifReplay(t *testing.T) {
	e := &Ecosystem{}
	ids := []string{"0", "1", "2", "5", "10", "-5", "a", "b", "rc", "alpha", "beta", "a-b", "x-5", "A", "Z", "1a", "a1"}
	pres := []string{""}
	pres = append(pres, %s...)
	for _, i := range ids {
		pres = append(pres, i)
		for _, j := range ids {
			pres = append(pres, i+"."+j)
		}
	}
	sgn := func(x int) int { if x < 0 { return -1 }; if x > 0 { return 1 }; return 0 }
	type pv struct { pre string; v *Version }
	var pool []pv
	for _, p := range pres {
		s := "%s1.0.0"
		if p != "" {
			s += "-" + p
		}
		for _, build := range []string{"", "+build.7"} {
			if v, err := e.NewVersion(s + build); err == nil {
				pool = append(pool, pv{p, v})
			}
		}
	}
	n := 0
	for _, a := range pool {
		for _, b := range pool {
			n++
			if got, want := sgn(a.v.Compare(b.v)), verifPreCmp(a.pre, b.pre); got != want {
				fmt.Printf("VERIF-CX Compare(%%q, %%q) = %%d, SemVer 2.0.0 precedence says %%d\n", a.v.String(), b.v.String(), got, want)
				return
			}
		}
	}
	nums := []string{"1.0.0", "1.0.1", "1.1.0", "2.0.0", "1.10.0", "1.2.0", "1.9.0", "0.0.0", "10.0.0", "9.0.0"}
	key := func(s string) [3]int { var k [3]int; for i, f := range strings.Split(s, ".") { k[i], _ = strconv.Atoi(f) }; return k }
	for _, a := range nums {
		for _, b := range nums {
			va, ea := e.NewVersion("%s" + a)
			vb, eb := e.NewVersion("%s" + b)
			if ea != nil || eb != nil {
				fmt.Printf("VERIF-CX plain version rejected: %%q %%v / %%q %%v\n", a, ea, b, eb)
				return
			}
			ka, kb := key(a), key(b)
			want := 0
			for i := 0; i < 3 && want == 0; i++ {
				if ka[i] < kb[i] { want = -1 } else if ka[i] > kb[i] { want = 1 }
			}
			n++
			if sgn(va.Compare(vb)) != want {
				fmt.Printf("VERIF-CX Compare(%%q, %%q) = %%d, numeric order says %%d\n", a, b, va.Compare(vb), want)
				return
			}
		}
	}
	fmt.Printf("VERIF-OK evals=%%d pool=%%d\n", n, len(pool))
}
`

func semverFalsifier(w *World, fn *ssa.Function, r vcResult) *Counterexample {
	pkg := fn.Pkg
	if pkg == nil || pkg.Pkg.Scope().Lookup("Ecosystem") == nil {
		return nil
	}
	prefix := ""
	if pkg.Pkg.Name() == "golang" {
		prefix = "v"
	}
	extra := "[]string{}"
	if pkg.Pkg.Name() == "golang" {
		// the three pseudo-version spellings (their SemVer reading is just their pre-release text)
		extra = `[]string{"20200101000000-abcdefabcdef", "20210101000000-abcdefabcdef", "0.20200101000000-abcdefabcdef", "0.20210101000000-abcdefabcdef", "rc.0.20200101000000-abcdefabcdef", "alpha.0.20200101000000-abcdefabcdef"}`
	}
	src := fmt.Sprintf(semverTestTmpl, pkg.Pkg.Name(), extra, prefix, prefix, prefix)
	out, _ := runOverlayTest(w, pkg, src, 120*time.Second)
	cx := &Counterexample{How: "real NewVersion+Compare on 1.0.0-<identifiers> against SemVer 2.0.0 section 11 precedence computed in the harness", Output: truncate(lastLines(out, 10), 2000)}
	for _, ln := range strings.Split(out, "\n") {
		if strings.HasPrefix(ln, "VERIF-CX ") {
			cx.Confirmed = true
			cx.Observed = strings.TrimPrefix(ln, "VERIF-CX ")
			return cx
		}
	}
	cx.Observed = "no difference observed"
	return cx
}

// cliFalsifier runs the real CLI entry point and compares it with direct library calls for every ecosystem.
func cliFalsifier(w *World, fn *ssa.Function, r vcResult) *Counterexample {
	cmdPkg := w.byShort["cmd"]
	if cmdPkg == nil {
		return nil
	}
	var ecos []string
	for name, p := range w.byShort {
		if p.Pkg.Scope().Lookup("Ecosystem") != nil && p.Pkg.Scope().Lookup("Name") != nil {
			ecos = append(ecos, name)
		}
	}
	sort.Strings(ecos)
	var b strings.Builder
	b.WriteString("package main\n\nimport (\n\t\"bytes\"\n\t\"fmt\"\n\t\"strings\"\n\t\"testing\"\n")
	for _, e := range ecos {
		fmt.Fprintf(&b, "\tv_%s %q\n", e, w.byShort[e].Pkg.Path())
	}
	b.WriteString(")\n\ntype verifEco struct {\n\tname string\n\tpool []string\n\tcmp func(a, b string) (int, bool)\n\tcont func(r, v string) (bool, bool)\n}\n\n")
	b.WriteString("func TestVerifReplay(t *testing.T) {\n\tecos := []verifEco{\n")
	for _, e := range ecos {
		pool := append([]string{"1.0^1", "1.0~rc1", "1.0-1", "1:2.0", "1.0a", "1.0.1", "1.0.0-alpha", "2.0.0", "1.0.0", "v1.2.3", "1.0_p1", "1.0-SNAPSHOT", "1.0.dev1"}, harvestStrings(w, w.byShort[e], true)...)
		if len(pool) > 200 {
			pool = pool[:200]
		}
		fmt.Fprintf(&b, "\t\t{v_%s.Name, %s,\n", e, goStringSlice(pool))
		fmt.Fprintf(&b, "\t\t\tfunc(a, b string) (int, bool) { e := &v_%s.Ecosystem{}; x, err := e.NewVersion(a); if err != nil { return 0, false }; y, err := e.NewVersion(b); if err != nil { return 0, false }; return x.Compare(y), true },\n", e)
		fmt.Fprintf(&b, "\t\t\tfunc(r, v string) (bool, bool) { e := &v_%s.Ecosystem{}; x, err := e.NewVersionRange(r); if err != nil { return false, false }; y, err := e.NewVersion(v); if err != nil { return false, false }; return x.Contains(y), true }},\n", e)
	}
	b.WriteString(`	}
	n := 0
	for _, ec := range ecos {
		var vs, rs []string
		for _, s := range ec.pool {
			if _, ok := ec.cmp(s, s); ok && len(vs) < 25 {
				vs = append(vs, s)
			}
		}
		for _, s := range ec.pool {
			if len(vs) > 0 {
				if _, ok := ec.cont(s, vs[0]); ok && len(rs) < 8 {
					rs = append(rs, s)
				}
			}
		}
		vs = append(vs, "not a version !!")
		rs = append(rs, "][")
		// range texts the range parser may reject although (nearly) the same text is a version: unbalanced brackets,
		// a dangling operator, a branch-style version (each is judged by the library: accepted ones must agree with it)
		for i, v := range vs {
			if i < 3 && v != "not a version !!" {
				rs = append(rs, "["+v, v+"]", "["+v+",", "("+v+",2.0.0", v+" <", ">= ", v+" ||")
			}
		}
		rs = append(rs, "1.0.x-dev", "[1.0.0", "1.0.0]")
		call := func(args ...string) (string, int) {
			var buf bytes.Buffer
			code := run(&buf, args)
			return buf.String(), code
		}
		for _, a := range vs {
			for _, b := range vs {
				n++
				out, code := call(ec.name, "compare", a, b)
				want, ok := ec.cmp(a, b)
				if ok && (code != 0 || out != fmt.Sprintf("%d\n", want)) {
					fmt.Printf("VERIF-CX univers %s compare %q %q printed %q (exit %d), library says %d\n", ec.name, a, b, out, code, want)
					return
				}
				if !ok && (code != 1 || strings.Count(out, "\n") != 1) {
					fmt.Printf("VERIF-CX univers %s compare %q %q with an invalid version: exit %d output %q\n", ec.name, a, b, code, out)
					return
				}
			}
			for _, r := range rs {
				n++
				out, code := call(ec.name, "contains", r, a)
				want, ok := ec.cont(r, a)
				if ok && (code != 0 || out != fmt.Sprintf("%t\n", want)) {
					fmt.Printf("VERIF-CX univers %s contains %q %q printed %q (exit %d), library says %t\n", ec.name, r, a, out, code, want)
					return
				}
				if !ok && (code != 1 || strings.Count(out, "\n") != 1) {
					fmt.Printf("VERIF-CX univers %s contains %q %q with an invalid argument: exit %d output %q\n", ec.name, r, a, code, out)
					return
				}
			}
		}
		for _, a := range vs[:len(vs)-1] {
			for _, extra := range []string{"", "%d", "%s%%"} {
				n++
				arg := a + extra
				if _, ok := ec.cmp(arg, arg); !ok {
					continue
				}
				out, code := call(ec.name, "sort", arg)
				// String() returns the input text up to surrounding white space (C18)
				if code != 0 || (out != fmt.Sprintf("%q\n", arg) && out != fmt.Sprintf("%q\n", strings.TrimSpace(arg))) {
					fmt.Printf("VERIF-CX univers %s sort %q printed %q (exit %d), want the quoted input on one line\n", ec.name, arg, out, code)
					return
				}
			}
		}
		if out, code := call(ec.name); code != 1 || strings.Count(out, "\n") != 1 {
			fmt.Printf("VERIF-CX univers %s (no command): exit %d output %q\n", ec.name, code, out)
			return
		}
		if out, code := call(ec.name, "compare", "1"); code != 1 || strings.Count(out, "\n") != 1 {
			fmt.Printf("VERIF-CX univers %s compare with one argument: exit %d output %q\n", ec.name, code, out)
			return
		}
	}
	fmt.Printf("VERIF-OK evals=%d ecosystems=%d\n", n, len(ecos))
}
`)
	out, _ := runOverlayTest(w, cmdPkg, b.String(), 180*time.Second)
	cx := &Counterexample{How: "the real CLI entry point run() against direct library calls, for every ecosystem name", Output: truncate(lastLines(out, 10), 2000)}
	for _, ln := range strings.Split(out, "\n") {
		if strings.HasPrefix(ln, "VERIF-CX ") {
			cx.Confirmed = true
			cx.Observed = strings.TrimPrefix(ln, "VERIF-CX ")
			return cx
		}
	}
	cx.Observed = "no difference observed"
	return cx
}

const textTestTmpl = `package %s

import (
	"fmt"
	"strings"
	"testing"
)

func TestVerifReplay(t *testing.T) {
	strs := %s
	e := &Ecosystem{}
	pads := [][2]string{{" ", ""}, {"", " "}, {"\t", "\n"}, {" \r\n", " \t "}}
	sgn := func(x int) int { if x < 0 { return -1 }; if x > 0 { return 1 }; return 0 }
	var vs []*Version
	var rs []*VersionRange
	for _, s := range strs {
		if v, err := e.NewVersion(s); err == nil && len(vs) < 120 {
			vs = append(vs, v)
		}
		if r, err := e.NewVersionRange(s); err == nil && len(rs) < 120 {
			rs = append(rs, r)
		}
	}
	n := 0
	for _, s := range strs {
		v0, err0 := e.NewVersion(s)
		for _, p := range pads {
			n++
			v1, err1 := e.NewVersion(p[0] + s + p[1])
			if (err0 == nil) != (err1 == nil) {
				fmt.Printf("VERIF-CX acceptance of %%q changes with padding %%q: %%v vs %%v\n", s, p[0]+s+p[1], err0, err1)
				return
			}
			if err0 != nil {
				continue
			}
			if strings.TrimSpace(v1.String()) != strings.TrimSpace(p[0]+s+p[1]) {
				fmt.Printf("VERIF-CX String() of %%q is %%q\n", p[0]+s+p[1], v1.String())
				return
			}
			if v0.Compare(v1) != 0 || v1.Compare(v0) != 0 {
				fmt.Printf("VERIF-CX %%q and its padded form %%q do not compare equal\n", s, p[0]+s+p[1])
				return
			}
			for _, w := range vs {
				if sgn(v0.Compare(w)) != sgn(v1.Compare(w)) || sgn(w.Compare(v0)) != sgn(w.Compare(v1)) {
					fmt.Printf("VERIF-CX Compare with %%q differs between %%q and padded %%q\n", w.String(), s, p[0]+s+p[1])
					return
				}
			}
			for _, r := range rs {
				if r.Contains(v0) != r.Contains(v1) {
					fmt.Printf("VERIF-CX range %%q contains %%q: %%v, padded %%q: %%v\n", r.String(), s, r.Contains(v0), p[0]+s+p[1], r.Contains(v1))
					return
				}
			}
		}
		if err0 == nil {
			v2, err2 := e.NewVersion(v0.String())
			if err2 != nil || v2.Compare(v0) != 0 {
				fmt.Printf("VERIF-CX re-parsing String() of %%q fails or differs: %%v\n", s, err2)
				return
			}
		}
		r0, rerr0 := e.NewVersionRange(s)
		for _, p := range pads {
			r1, rerr1 := e.NewVersionRange(p[0] + s + p[1])
			if (rerr0 == nil) != (rerr1 == nil) {
				fmt.Printf("VERIF-CX acceptance of range %%q changes with padding: %%v vs %%v\n", s, rerr0, rerr1)
				return
			}
			if rerr0 != nil {
				continue
			}
			for _, w := range vs {
				n++
				if r0.Contains(w) != r1.Contains(w) {
					fmt.Printf("VERIF-CX range %%q vs padded %%q differ on %%q\n", s, p[0]+s+p[1], w.String())
					return
				}
			}
		}
		if rerr0 == nil {
			r2, rerr2 := e.NewVersionRange(r0.String())
			if rerr2 != nil {
				fmt.Printf("VERIF-CX re-parsing range String() of %%q fails: %%v\n", s, rerr2)
				return
			}
			for _, w := range vs {
				if r0.Contains(w) != r2.Contains(w) {
					fmt.Printf("VERIF-CX re-parsed range %%q differs on %%q\n", s, w.String())
					return
				}
			}
		}
	}
	fmt.Printf("VERIF-OK evals=%%d versions=%%d ranges=%%d\n", n, len(vs), len(rs))
}
`

func textFalsifier(w *World, fn *ssa.Function, r vcResult) *Counterexample {
	pkg := fn.Pkg
	if pkg == nil || pkg.Pkg.Scope().Lookup("Ecosystem") == nil || pkg.Pkg.Scope().Lookup("Version") == nil {
		return nil
	}
	pool := apiPool(w, pkg, []string{"1.0b1", "1.0.0", "^1.0.0", "~1.2", "^1.2.3", "~> 1.2", "1.0.0-beta1", "1.0-beta1"})
	src := fmt.Sprintf(textTestTmpl, pkg.Pkg.Name(), goStringSlice(pool))
	out, _ := runOverlayTest(w, pkg, src, 180*time.Second)
	cx := &Counterexample{How: "real API: every pool string parsed bare and padded with white space; acceptance, String(), Compare and Contains compared", Output: truncate(lastLines(out, 10), 2000)}
	for _, ln := range strings.Split(out, "\n") {
		if strings.HasPrefix(ln, "VERIF-CX ") {
			cx.Confirmed = true
			cx.Observed = strings.TrimPrefix(ln, "VERIF-CX ")
			return cx
		}
	}
	cx.Observed = "no difference observed"
	return cx
}

const panicTestTmpl = `package %s

import (
	"fmt"
	"os"
	"sync/atomic"
	"testing"
	"time"
)

// watchdog: a call that does not return within ten seconds is reported with its input (termination is part of C06)
var (
	verifSeq  atomic.Int64
	verifBusy atomic.Bool
	verifNow  atomic.Value
)

func init() {
	go func() {
		last, since := int64(-1), time.Now()
		for {
			time.Sleep(200 * time.Millisecond)
			if cur := verifSeq.Load(); cur != last {
				last, since = cur, time.Now()
			} else if verifBusy.Load() && time.Since(since) > 10*time.Second {
				fmt.Printf("VERIF-CX no return from %%v within 10 s (termination)\n", verifNow.Load())
				os.Exit(1)
			}
		}
	}()
}

func verifEnum(alpha string, maxLen int) []string {
	out := []string{""}
	prev := []string{""}
	for l := 1; l <= maxLen; l++ {
		var cur []string
		for _, p := range prev {
			for i := 0; i < len(alpha); i++ {
				cur = append(cur, p+string(alpha[i]))
			}
		}
		out = append(out, cur...)
		prev = cur
	}
	return out
}

func TestVerifReplay(t *testing.T) {
	strs := %s
	// numbers that do not fit a machine integer: every digit run of the package's own literals replaced, one at a time,
	// by a run of 25 nines (an overflow must end in an error, not in a value together with an error)
	{
		var big []string
		for _, s := range strs {
			if len(big) > 600 {
				break
			}
			for i := 0; i < len(s); {
				if s[i] < '0' || s[i] > '9' {
					i++
					continue
				}
				j := i
				for j < len(s) && s[j] >= '0' && s[j] <= '9' {
					j++
				}
				big = append(big, s[:i]+"9999999999999999999999999"+s[j:])
				i = j
			}
		}
		strs = append(strs, big...)
	}
	strs = append(strs, verifEnum("1.0a-~^*[(,) <>=|!v+_:x", 3)...)
	// multi-byte runes, invalid UTF-8 and NUL between and after ordinary version characters
	{
		toks := []string{"1", ".", "0", "a", "-", "\u00e9", "\u65e5", "\U0001F600", "\xff", "\x00", "rc", "+"}
		cur := []string{""}
		for l := 1; l <= 4; l++ {
			var nx []string
			for _, p := range cur {
				for _, t := range toks {
					nx = append(nx, p+t)
				}
			}
			for _, x := range nx {
				multi := false
				for i := 0; i < len(x); i++ {
					if x[i] >= 0x80 || x[i] == 0 {
						multi = true
					}
				}
				if multi {
					strs = append(strs, x, "1.0-"+x, "["+x+",2.0]", ">="+x)
				}
			}
			cur = nx
			if l == 3 {
				cur = nx[:len(nx)/4]
			}
		}
	}
	strs = append(strs, "\x00", "\xff\xfe", "1.0\x00", "é", "１.０", "[", "]", "(,)", "[,]", "[1.0", "1.0]", ">=", "^", "~", "~>", "||", " || ", ",", "1.0 - ", " - 2.0", "!=", "==", "===", "vers:", "@stable", "dev-", "1.x", "x", "*", "=*")
	e := &Ecosystem{}
	try := func(what, in string, f func()) (ok bool) {
		verifNow.Store(fmt.Sprintf("%%s(%%q)", what, in))
		verifSeq.Add(1)
		verifBusy.Store(true)
		defer func() {
			verifBusy.Store(false)
			if r := recover(); r != nil {
				fmt.Printf("VERIF-CX panic in %%s(%%q): %%v\n", what, in, r)
				ok = false
			}
		}()
		f()
		return true
	}
	var vs []*Version
	var rs []*VersionRange
	n := 0
	for _, s := range strs {
		s := s
		n++
		if !try("NewVersion", s, func() {
			v, err := e.NewVersion(s)
			if (v == nil) == (err == nil) {
				fmt.Printf("VERIF-CX NewVersion(%%q) returned value=%%v err=%%v (want exactly one)\n", s, v != nil, err)
			}
			if err == nil && len(vs) < 400 {
				vs = append(vs, v)
			}
		}) {
			return
		}
		if !try("NewVersionRange", s, func() {
			r, err := e.NewVersionRange(s)
			if (r == nil) == (err == nil) {
				fmt.Printf("VERIF-CX NewVersionRange(%%q) returned value=%%v err=%%v (want exactly one)\n", s, r != nil, err)
			}
			if err == nil && len(rs) < 2000 {
				rs = append(rs, r)
			}
		}) {
			return
		}
	}
	for i, a := range vs {
		for _, b := range vs {
			n++
			if !try("Compare", a.String()+" vs "+b.String(), func() { _ = a.Compare(b) }) {
				return
			}
		}
		if i%%8 != 0 && i > 40 {
			continue
		}
		for _, r := range rs {
			n++
			if !try("Contains", r.String()+" / "+a.String(), func() { _ = r.Contains(a) }) {
				return
			}
		}
	}
	fmt.Printf("VERIF-OK evals=%%d versions=%%d ranges=%%d\n", n, len(vs), len(rs))
}
`

// panicFalsifier drives the package's public API over a pool of awkward strings and reports the first panic
// or value/error inconsistency.
func panicFalsifier(w *World, fn *ssa.Function, r vcResult) *Counterexample {
	pkg := fn.Pkg
	if pkg == nil || pkg.Pkg.Scope().Lookup("Ecosystem") == nil || pkg.Pkg.Scope().Lookup("Version") == nil {
		return nil
	}
	src := fmt.Sprintf(panicTestTmpl, pkg.Pkg.Name(), goStringSlice(apiPool(w, pkg, nil)))
	out, _ := runOverlayTest(w, pkg, src, 120*time.Second)
	cx := &Counterexample{How: "real NewVersion/NewVersionRange/Compare/Contains driven over test literals, short strings over the syntax alphabet and malformed inputs", Output: truncate(lastLines(out, 10), 2000)}
	for _, ln := range strings.Split(out, "\n") {
		if strings.HasPrefix(ln, "VERIF-CX ") {
			cx.Confirmed = true
			cx.Observed = strings.TrimPrefix(ln, "VERIF-CX ")
			return cx
		}
	}
	cx.Observed = "no panic observed"
	return cx
}

const raceTestTmpl = `package %s

import (
	"fmt"
	"sync"
	"testing"
)

func TestVerifReplay(t *testing.T) {
	strs := %s
	e := &Ecosystem{}
	var vs []*Version
	for _, s := range strs {
		if v, err := e.NewVersion(s); err == nil && len(vs) < 12 {
			vs = append(vs, v)
		}
	}
	var rs []*VersionRange
	for _, s := range strs {
		if r, err := e.NewVersionRange(s); err == nil && len(rs) < 12 {
			rs = append(rs, r)
		}
	}
	// sequential reference results, computed on separate copies so that the shared values are still fresh
	// (never used) when the goroutines start
	var copies []*Version
	for _, v := range vs {
		c, _ := e.NewVersion(v.String())
		copies = append(copies, c)
	}
	ref := map[string]int{}
	for i, a := range copies {
		for j, b := range copies {
			ref[fmt.Sprint(i, ",", j)] = a.Compare(b)
		}
	}
	var wg sync.WaitGroup
	bad := make(chan string, 64)
	for g := 0; g < 8; g++ {
		wg.Add(1)
		go func(g int) {
			defer wg.Done()
			for rep := 0; rep < 20; rep++ {
				for i, a := range vs {
					for j, b := range vs {
						if a.Compare(b) != ref[fmt.Sprint(i, ",", j)] {
							select {
							case bad <- fmt.Sprintf("Compare(%%q,%%q) changed under concurrency", a.String(), b.String()):
							default:
							}
						}
					}
					for _, r := range rs {
						_ = r.Contains(a)
						_ = r.String()
					}
					_, _ = e.NewVersion(a.String())
				}
				for _, r := range rs {
					_, _ = e.NewVersionRange(r.String())
				}
			}
		}(g)
	}
	wg.Wait()
	close(bad)
	for m := range bad {
		fmt.Println("VERIF-CX nondeterminism", m)
	}
	fmt.Println("VERIF-DONE versions", len(vs), "ranges", len(rs))
}
`

// raceFalsifier runs the package's API concurrently on shared values under the race detector.
func raceFalsifier(w *World, fn *ssa.Function, r vcResult) *Counterexample {
	pkg := fn.Pkg
	if pkg == nil || pkg.Pkg.Scope().Lookup("Ecosystem") == nil || pkg.Pkg.Scope().Lookup("Version") == nil {
		return nil
	}
	src := fmt.Sprintf(raceTestTmpl, pkg.Pkg.Name(), goStringSlice(harvestStrings(w, pkg, true)))
	out, _ := runOverlayTestArgs(w, pkg, src, 180*time.Second, "-race")
	cx := &Counterexample{How: "real API called from 8 goroutines on shared values under go test -race", Output: truncate(lastLines(out, 25), 3000)}
	if strings.Contains(out, "DATA RACE") {
		cx.Confirmed = true
		cx.Observed = "race detector: DATA RACE"
		if i := strings.Index(out, "WARNING: DATA RACE"); i >= 0 {
			cx.Output = truncate(out[i:], 3000)
		}
		return cx
	}
	if strings.Contains(out, "concurrent map") {
		cx.Confirmed = true
		cx.Observed = "runtime: concurrent map access"
		return cx
	}
	for _, ln := range strings.Split(out, "\n") {
		if strings.HasPrefix(ln, "VERIF-CX ") {
			cx.Confirmed = true
			cx.Observed = strings.TrimPrefix(ln, "VERIF-CX ")
			return cx
		}
	}
	cx.Observed = "no race observed"
	return cx
}

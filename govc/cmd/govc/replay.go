package main

import (
	"encoding/json"
	"os"
	"path/filepath"
)

// writeReplay records a failed obligation and tries to obtain a failing input on the real code.
func writeReplay(w *World, prop string, r vcResult) replayResult {
	dir := filepath.Join(verifDir, "replays", prop)
	os.MkdirAll(dir, 0o755)
	path := filepath.Join(dir, sanitizeFile(r.vc.Name)+".json")
	smt := filepath.Join(dir, sanitizeFile(r.vc.Name)+".smt2")
	os.WriteFile(smt, []byte(r.vc.Script), 0o644)
	rec := map[string]any{
		"property": prop, "obligation": r.vc.Name, "kind": r.vc.Kind, "function": r.vc.Fn, "clause": r.vc.Clause,
		"source": r.vc.Pos, "solver_status": r.res.Status, "solver_output": truncate(r.res.Output, 4000),
		"per_solver": r.res.All, "smt_script": smt,
	}
	confirmed := false
	if cx := searchCounterexample(w, prop, r); cx != nil {
		rec["counterexample"] = cx
		confirmed = cx.Confirmed
	}
	b, _ := json.MarshalIndent(rec, "", " ")
	os.WriteFile(path, b, 0o644)
	return replayResult{Path: path, Confirmed: confirmed}
}

type Counterexample struct {
	Confirmed bool     `json:"confirmed_on_real_code"`
	Inputs    []string `json:"inputs"`
	Observed  []string `json:"observed"`
	How       string   `json:"how"`
	TestFile  string   `json:"test_file,omitempty"`
}

func searchCounterexample(w *World, prop string, r vcResult) *Counterexample { return nil }

package main

import (
	"sort"
	"fmt"
	"strings"
	"sync"
	"time"
)

// C10-C13 bounded API obligations: the real NewVersion+Compare of debian, rpm, maven and gem against a reference
// implementation of the native tool's algorithm (dpkg verrevcmp, rpmvercmp, Maven 3.8 ComparableVersion,
// Gem::Version#<=>), transcribed from the algorithm each property statement describes, on a grid of version texts
// (all pairs). Strings the ecosystem rejects are skipped (the properties quantify over accepted strings).
const refOrderHarness = `package PKG

import (
	"fmt"
	"os"
	"strings"
	"testing"
)

var _ = strings.ToLower

REFCODE

func TestVerifReplay(t *testing.T) {
	e := &Ecosystem{}
	pool := verifPool()
	type pv struct {
		text string
		v    *Version
	}
	var parsed []pv
	rejected := 0
	for _, s := range pool {
		v, err := e.NewVersion(s)
		if err != nil {
			rejected++
			continue
		}
		parsed = append(parsed, pv{s, v})
	}
	sgn := func(x int) int {
		if x < 0 {
			return -1
		}
		if x > 0 {
			return 1
		}
		return 0
	}
	type stat struct {
		n, bad int
		first  string
		more   []string
	}
	stats := map[string]*stat{}
	for _, c := range verifClasses {
		stats[c] = &stat{}
	}
	for _, a := range parsed {
		for _, b := range parsed {
			want, class := verifRef(a.text, b.text)
			if class == "" {
				continue
			}
			st := stats[class]
			if st == nil {
				st = &stat{}
				stats[class] = st
			}
			st.n++
			if got := sgn(a.v.Compare(b.v)); got != sgn(want) {
				st.bad++
				msg := fmt.Sprintf("Compare(%q, %q) = %d, REFNAME gives %d", a.text, b.text, got, sgn(want))
				if st.bad == 1 {
					st.first = msg
				} else if st.bad%97 == 0 && len(st.more) < 12 {
					st.more = append(st.more, msg)
				}
			}
		}
	}
	if os.Getenv("VERIF_DUMP") != "" {
		// audit mode: a sample of (a, b, sign by the transcription) for comparison with the native tool
		total := len(parsed) * len(parsed)
		step := total/4000 + 1
		if step%2 == 0 {
			step++
		}
		for k := 0; k < total; k += step {
			a, b := parsed[k/len(parsed)], parsed[k%len(parsed)]
			want, class := verifRef(a.text, b.text)
			if class != "" {
				fmt.Printf("VERIF-PAIR %q %q %d %s\n", a.text, b.text, sgn(want), class)
			}
		}
	}
	for _, c := range verifClasses {
		st := stats[c]
		if st.bad > 0 {
			fmt.Printf("VERIF-CLASS %s CX %s (%d of %d pairs differ)\n", c, st.first, st.bad, st.n)
			for _, m := range st.more {
				fmt.Printf("VERIF-MORE %s %s\n", c, m)
			}
		} else {
			fmt.Printf("VERIF-CLASS %s OK evals=%d pool=%d rejected=%d\n", c, st.n, len(parsed), rejected)
		}
	}
}
`

type refOrder struct {
	prop, pkg, refName, bound, code string
	classes                         []string // one obligation per class (must match verifClasses in code)
}

var refOrders = []refOrder{
	{prop: "C10", pkg: "debian", refName: "dpkg --compare-versions (verrevcmp)",
		bound: "[epoch:]upstream[-revision]: 7 leading digit runs (incl. leading zeros and >20 digits) x 22 continuations over [0-9a-zA-Z.+~-] x 6 revisions, epochs on a subset (about 1000 texts, all pairs)",
		code: `
func verifOrder(c byte, end bool) int {
	switch {
	case end:
		return 0
	case c >= '0' && c <= '9':
		return 0
	case (c >= 'a' && c <= 'z') || (c >= 'A' && c <= 'Z'):
		return int(c)
	case c == '~':
		return -1
	}
	return int(c) + 256
}

func verifIsDigit(s string, i int) bool { return i < len(s) && s[i] >= '0' && s[i] <= '9' }

// dpkg lib/dpkg/version.c verrevcmp
func verifVerrevcmp(a, b string) int {
	i, j := 0, 0
	for i < len(a) || j < len(b) {
		firstDiff := 0
		for (i < len(a) && !verifIsDigit(a, i)) || (j < len(b) && !verifIsDigit(b, j)) {
			var ca, cb byte
			if i < len(a) {
				ca = a[i]
			}
			if j < len(b) {
				cb = b[j]
			}
			ac, bc := verifOrder(ca, i >= len(a)), verifOrder(cb, j >= len(b))
			if ac != bc {
				return ac - bc
			}
			i++
			j++
		}
		for i < len(a) && a[i] == '0' {
			i++
		}
		for j < len(b) && b[j] == '0' {
			j++
		}
		for verifIsDigit(a, i) && verifIsDigit(b, j) {
			if firstDiff == 0 {
				firstDiff = int(a[i]) - int(b[j])
			}
			i++
			j++
		}
		if verifIsDigit(a, i) {
			return 1
		}
		if verifIsDigit(b, j) {
			return -1
		}
		if firstDiff != 0 {
			return firstDiff
		}
	}
	return 0
}

func verifSplit(s string) (epoch int, upstream, revision string) {
	if k := strings.Index(s, ":"); k >= 0 {
		fmt.Sscanf(s[:k], "%d", &epoch)
		s = s[k+1:]
	}
	upstream = s
	if k := strings.LastIndex(s, "-"); k >= 0 {
		upstream, revision = s[:k], s[k+1:]
	}
	return
}

var verifClasses = []string{"all"}

func verifRef(a, b string) (int, string) {
	ea, ua, ra := verifSplit(a)
	eb, ub, rb := verifSplit(b)
	if ea != eb {
		return ea - eb, "all"
	}
	if c := verifVerrevcmp(ua, ub); c != 0 {
		return c, "all"
	}
	return verifVerrevcmp(ra, rb), "all"
}

func verifPool() []string {
	heads := []string{"1", "0", "01", "10", "9", "00000000000000000000001", "99999999999999999999"}
	tails := []string{"", ".0", ".1", "a", "+", "~", "~~", "~a", "a0", "a1", ".a", "+a", "-1", ".10", ".9", "a~", "+1", "~1", ".01", "A", "a+", "+~"}
	revs := []string{"", "-0", "-1", "-1~", "-a", "-1+b"}
	if verifThorough {
		heads = append(heads, "2", "11", "009", "100")
		tails = append(tails, "b", "Z", ".a1", "~~a", "+b1", ".0a", "a.0", "~+", ".~", "a10", "a2", ".+", "++")
		revs = append(revs, "-01", "-1a", "-~", "-1.1")
	}
	var out []string
	for _, h := range heads {
		for _, t := range tails {
			for _, r := range revs {
				out = append(out, h+t+r)
			}
		}
	}
	for _, s := range []string{"1", "1.1", "1-1", "1~"} {
		out = append(out, "0:"+s, "1:"+s, "2:"+s)
	}
	return out
}
`},
	{prop: "C11", pkg: "rpm", refName: "rpmvercmp", classes: []string{"segments", "tilde", "caret", "numeric-vs-alphabetic"},
		bound: "[epoch:]version[-release]: 7 leading digit runs x 24 continuations over [0-9A-Za-z._+~^] x 6 releases, epochs on a subset (about 1000 texts; pairs where both or neither have a release)",
		code: `
func verifAlnum(c byte) bool {
	return (c >= '0' && c <= '9') || (c >= 'a' && c <= 'z') || (c >= 'A' && c <= 'Z')
}
func verifDigit(c byte) bool { return c >= '0' && c <= '9' }
func verifAlpha(c byte) bool { return (c >= 'a' && c <= 'z') || (c >= 'A' && c <= 'Z') }

// rpm rpmio/rpmvercmp.c
var verifReason string // the rule that decided the last verifRpmvercmp call

func verifRpmvercmp(a, b string) int {
	verifReason = "segments"
	if a == b {
		return 0
	}
	i, j := 0, 0
	for i < len(a) || j < len(b) {
		for i < len(a) && !verifAlnum(a[i]) && a[i] != '~' && a[i] != '^' {
			i++
		}
		for j < len(b) && !verifAlnum(b[j]) && b[j] != '~' && b[j] != '^' {
			j++
		}
		at := func(s string, k int) byte {
			if k < len(s) {
				return s[k]
			}
			return 0
		}
		if at(a, i) == '~' || at(b, j) == '~' {
			if at(a, i) != '~' {
				verifReason = "tilde"
				return 1
			}
			if at(b, j) != '~' {
				verifReason = "tilde"
				return -1
			}
			i++
			j++
			continue
		}
		if at(a, i) == '^' || at(b, j) == '^' {
			verifReason = "caret"
			if i >= len(a) {
				return -1
			}
			if j >= len(b) {
				return 1
			}
			if a[i] != '^' {
				return 1
			}
			if b[j] != '^' {
				return -1
			}
			verifReason = "segments"
			i++
			j++
			continue
		}
		if !(i < len(a) && j < len(b)) {
			break
		}
		si, sj := i, j
		isnum := verifDigit(a[i])
		if isnum {
			for i < len(a) && verifDigit(a[i]) {
				i++
			}
			for j < len(b) && verifDigit(b[j]) {
				j++
			}
		} else {
			for i < len(a) && verifAlpha(a[i]) {
				i++
			}
			for j < len(b) && verifAlpha(b[j]) {
				j++
			}
		}
		s1, s2 := a[si:i], b[sj:j]
		if len(s1) == 0 {
			return -1
		}
		if len(s2) == 0 {
			verifReason = "numeric-vs-alphabetic"
			if isnum {
				return 1
			}
			return -1
		}
		if isnum {
			s1 = strings.TrimLeft(s1, "0")
			s2 = strings.TrimLeft(s2, "0")
			if len(s1) > len(s2) {
				return 1
			}
			if len(s2) > len(s1) {
				return -1
			}
		}
		if s1 != s2 {
			if s1 < s2 {
				return -1
			}
			return 1
		}
	}
	if i >= len(a) && j >= len(b) {
		return 0
	}
	if i < len(a) {
		return 1
	}
	return -1
}

func verifSplit(s string) (epoch int, version, release string, hasRel bool) {
	if k := strings.Index(s, ":"); k >= 0 {
		fmt.Sscanf(s[:k], "%d", &epoch)
		s = s[k+1:]
	}
	version = s
	if k := strings.LastIndex(s, "-"); k >= 0 {
		version, release, hasRel = s[:k], s[k+1:], true
	}
	return
}

// one obligation per deciding rule of rpmvercmp
var verifClasses = []string{"segments", "tilde", "caret", "numeric-vs-alphabetic"}

func verifRef(a, b string) (int, string) {
	ea, va, ra, ha := verifSplit(a)
	eb, vb, rb, hb := verifSplit(b)
	if ha != hb {
		return 0, "" // a missing release against a present one is not claimed (rpm treats it per context)
	}
	if ea != eb {
		return ea - eb, "segments"
	}
	if c := verifRpmvercmp(va, vb); c != 0 {
		return c, verifReason
	}
	c := verifRpmvercmp(ra, rb)
	return c, verifReason
}

func verifPool() []string {
	heads := []string{"1", "0", "01", "10", "9", "00000000000000000000001", "99999999999999999999"}
	tails := []string{"", ".0", ".1", "a", "~", "^", "~a", "^a", "a1", ".a", "..1", "_1", "+", "~~", "^1", "~1", ".01", ".10", ".1a", ".a1", "~^", "^~", "A", ".b"}
	rels := []string{"", "-1", "-0", "-1.el8", "-1~rc", "-1^git"}
	if verifThorough {
		heads = append(heads, "2", "11", "009", "100")
		tails = append(tails, "b", "Z", "a10", "a2", "~~a", "^^", "^a1", "~a1", "_a", "+1", ".0a", "a.0", "..", ".~", ".^", "a^", "a~")
		rels = append(rels, "-01", "-1a", "-a", "-1.1")
	}
	var out []string
	for _, h := range heads {
		for _, t := range tails {
			for _, r := range rels {
				out = append(out, h+t+r)
			}
		}
	}
	for _, s := range []string{"1", "1.1", "1-1", "1~"} {
		out = append(out, "0:"+s, "1:"+s, "2:"+s)
	}
	return out
}
`},
	{prop: "C13", pkg: "gem", refName: "Gem::Version#<=>",
		bound: "N(.N)* with 1-4 numeric segments x 20 letter/number group continuations ('.rc1', '.beta.2', '-alpha', '.a4', ...) (about 260 texts, all pairs)",
		code: `
type verifSeg struct {
	str   string
	num   int
	isStr bool
}

func verifSegments(s string) []verifSeg {
	s = strings.ReplaceAll(s, "-", ".pre.")
	var out []verifSeg
	i := 0
	for i < len(s) {
		c := s[i]
		switch {
		case c >= '0' && c <= '9':
			j := i
			n := 0
			for j < len(s) && s[j] >= '0' && s[j] <= '9' {
				n = n*10 + int(s[j]-'0')
				j++
			}
			out = append(out, verifSeg{num: n})
			i = j
		case (c >= 'a' && c <= 'z') || (c >= 'A' && c <= 'Z'):
			j := i
			for j < len(s) && ((s[j] >= 'a' && s[j] <= 'z') || (s[j] >= 'A' && s[j] <= 'Z')) {
				j++
			}
			out = append(out, verifSeg{str: s[i:j], isStr: true})
			i = j
		default:
			i++
		}
	}
	return out
}

func verifDropZeros(x []verifSeg) []verifSeg {
	for len(x) > 0 && !x[len(x)-1].isStr && x[len(x)-1].num == 0 {
		x = x[:len(x)-1]
	}
	return x
}

// Gem::Version#canonical_segments: the numeric part and the pre-release part each lose their trailing zeros
func verifCanonical(s string) []verifSeg {
	segs := verifSegments(s)
	k := len(segs)
	for i, g := range segs {
		if g.isStr {
			k = i
			break
		}
	}
	out := append([]verifSeg{}, verifDropZeros(segs[:k])...)
	return append(out, verifDropZeros(segs[k:])...)
}

var verifClasses = []string{"all"}

func verifRef(a, b string) (int, string) {
	l, r := verifCanonical(a), verifCanonical(b)
	for i := 0; i < len(l) || i < len(r); i++ {
		var x, y verifSeg
		if i < len(l) {
			x = l[i]
		}
		if i < len(r) {
			y = r[i]
		}
		if x == y {
			continue
		}
		if x.isStr && !y.isStr {
			return -1, "all"
		}
		if !x.isStr && y.isStr {
			return 1, "all"
		}
		if x.isStr {
			if x.str < y.str {
				return -1, "all"
			}
			return 1, "all"
		}
		return x.num - y.num, "all"
	}
	return 0, "all"
}

func verifPool() []string {
	heads := []string{"1", "0", "2", "1.0", "1.2", "1.10", "0.9", "1.0.0", "1.2.3", "2.0.0", "1.0.10", "1.0.0.0", "1.2.0.1"}
	tails := []string{"", ".rc1", ".rc2", ".rc10", ".beta.2", ".beta", "-alpha", "-alpha.1", ".a4", ".a", ".b", ".pre", ".0", ".0.a", ".a.0", ".1", ".10", ".rc.1", ".rc1.0", "-rc.2"}
	if verifThorough {
		heads = append(heads, "3", "1.1", "1.0.1", "10", "1.0.0.1", "0.0.1", "2.10", "1.2.10")
		tails = append(tails, ".rc", ".rc0", ".alpha", ".alpha1", ".alpha2", "-beta", "-beta.2", "-rc1", "-rc.10", ".z", ".pre1", ".pre.1", ".2", ".0.0", ".a.b", ".b.a", ".a1.b2", "-a", ".rc2.1")
	}
	var out []string
	for _, h := range heads {
		for _, t := range tails {
			out = append(out, h+t)
		}
	}
	return out
}
`},
	{prop: "C12", pkg: "maven", refName: "Maven 3.8 ComparableVersion", classes: []string{"numbers-only", "with-build-number", "with-qualifier", "with-qualifier[same-stem]", "with-qualifier[stems-of-equal-length]"},
		bound: "conventional shapes: 7 numeric stems N(.N){0,3} x ('.'|'-') x 14 qualifiers in three letter cases x 5 number attachments, aliases a/b/m + digit, bare build numbers (about 1500 texts, all pairs)",
		code: `
// org.apache.maven.artifact.versioning.ComparableVersion (Maven 3.8.x), items: int, string, list
type verifItem struct {
	kind int // 0 int, 1 string, 2 list
	num  string
	str  string
	list []*verifItem
}

var verifQualifiers = []string{"alpha", "beta", "milestone", "rc", "snapshot", "", "sp"}

func verifComparableQualifier(q string) string {
	for i, x := range verifQualifiers {
		if x == q {
			return fmt.Sprint(i)
		}
	}
	return fmt.Sprint(len(verifQualifiers)) + "-" + q
}

func verifStringItem(v string, followedByDigit bool) *verifItem {
	if followedByDigit && len(v) == 1 {
		switch v[0] {
		case 'a':
			v = "alpha"
		case 'b':
			v = "beta"
		case 'm':
			v = "milestone"
		}
	}
	switch v {
	case "ga", "final", "release":
		v = ""
	case "cr":
		v = "rc"
	}
	return &verifItem{kind: 1, str: v}
}

func verifIntItem(s string) *verifItem {
	s = strings.TrimLeft(s, "0")
	return &verifItem{kind: 0, num: s} // "" is zero
}

func verifParseItem(isDigit bool, s string) *verifItem {
	if isDigit {
		return verifIntItem(s)
	}
	return verifStringItem(s, false)
}

func (it *verifItem) isNull() bool {
	switch it.kind {
	case 0:
		return it.num == ""
	case 1:
		return verifComparableQualifier(it.str) == "5"
	}
	return len(it.list) == 0
}

func (it *verifItem) normalize() {
	for i := len(it.list) - 1; i >= 0; i-- {
		last := it.list[i]
		if last.isNull() {
			it.list = append(it.list[:i], it.list[i+1:]...)
		} else if last.kind != 2 {
			break
		}
	}
}

func verifCmpStr(a, b string) int {
	if a < b {
		return -1
	}
	if a > b {
		return 1
	}
	return 0
}

func verifCompare(l, r *verifItem) int {
	if r == nil {
		switch l.kind {
		case 0:
			if l.num == "" {
				return 0
			}
			return 1
		case 1:
			return verifCmpStr(verifComparableQualifier(l.str), "5")
		}
		if len(l.list) == 0 {
			return 0
		}
		return verifCompare(l.list[0], nil)
	}
	switch l.kind {
	case 0:
		switch r.kind {
		case 0:
			if len(l.num) != len(r.num) {
				if len(l.num) < len(r.num) {
					return -1
				}
				return 1
			}
			return verifCmpStr(l.num, r.num)
		default:
			return 1
		}
	case 1:
		switch r.kind {
		case 0:
			return -1
		case 1:
			return verifCmpStr(verifComparableQualifier(l.str), verifComparableQualifier(r.str))
		default:
			return -1
		}
	}
	switch r.kind {
	case 0:
		return -1
	case 1:
		return 1
	}
	for i := 0; i < len(l.list) || i < len(r.list); i++ {
		var x, y *verifItem
		if i < len(l.list) {
			x = l.list[i]
		}
		if i < len(r.list) {
			y = r.list[i]
		}
		var c int
		if x == nil {
			if y == nil {
				c = 0
			} else {
				c = -verifCompare(y, nil)
			}
		} else {
			c = verifCompare(x, y)
		}
		if c != 0 {
			return c
		}
	}
	return 0
}

func verifParse(version string) *verifItem {
	version = strings.ToLower(version)
	root := &verifItem{kind: 2}
	list := root
	stack := []*verifItem{root}
	isDigit := false
	start := 0
	isD := func(c byte) bool { return c >= '0' && c <= '9' }
	for i := 0; i < len(version); i++ {
		c := version[i]
		switch {
		case c == '.':
			if i == start {
				list.list = append(list.list, verifIntItem("0"))
			} else {
				list.list = append(list.list, verifParseItem(isDigit, version[start:i]))
			}
			start = i + 1
		case c == '-':
			if i == start {
				list.list = append(list.list, verifIntItem("0"))
			} else {
				list.list = append(list.list, verifParseItem(isDigit, version[start:i]))
			}
			start = i + 1
			nl := &verifItem{kind: 2}
			list.list = append(list.list, nl)
			list = nl
			stack = append(stack, nl)
		case isD(c):
			if !isDigit && i > start {
				// 1.0.0.X1 < 1.0.0-X2: .X is treated as -X for any string qualifier X (as Maven 3.8 does)
				if len(list.list) > 0 {
					nl := &verifItem{kind: 2}
					list.list = append(list.list, nl)
					list = nl
					stack = append(stack, nl)
				}
				list.list = append(list.list, verifStringItem(version[start:i], true))
				start = i
				nl := &verifItem{kind: 2}
				list.list = append(list.list, nl)
				list = nl
				stack = append(stack, nl)
			}
			isDigit = true
		default:
			if isDigit && i > start {
				list.list = append(list.list, verifParseItem(true, version[start:i]))
				start = i
				nl := &verifItem{kind: 2}
				list.list = append(list.list, nl)
				list = nl
				stack = append(stack, nl)
			}
			isDigit = false
		}
	}
	if len(version) > start {
		// .X is treated as -X for any string qualifier X
		if !isDigit && len(list.list) > 0 {
			nl := &verifItem{kind: 2}
			list.list = append(list.list, nl)
			list = nl
			stack = append(stack, nl)
		}
		list.list = append(list.list, verifParseItem(isDigit, version[start:]))
	}
	for i := len(stack) - 1; i >= 0; i-- {
		stack[i].normalize()
	}
	return root
}

var verifClasses = []string{"numbers-only", "with-build-number", "with-qualifier", "with-qualifier[same-stem]", "with-qualifier[stems-of-equal-length]"}

// shape of a conventional version: numbers only, a bare build number after '-', or a qualifier group
func verifShape(s string) int {
	i := 0
	for i < len(s) && (s[i] == '.' || (s[i] >= '0' && s[i] <= '9')) {
		i++
	}
	if i == len(s) {
		return 0
	}
	if s[i] == '-' && i+1 < len(s) && s[i+1] >= '0' && s[i+1] <= '9' {
		return 1
	}
	return 2
}

// numeric stem of a conventional version (the dot-separated numbers before the qualifier group or build number)
func verifStem(s string) string {
	i := 0
	for i < len(s) && (s[i] == '.' || (s[i] >= '0' && s[i] <= '9')) {
		i++
	}
	return strings.TrimSuffix(s[:i], ".")
}

func verifRef(a, b string) (int, string) {
	k := verifShape(a)
	if x := verifShape(b); x > k {
		k = x
	}
	class := verifClasses[k]
	if k == 2 {
		// pairs with a qualifier group are partitioned by what their numeric stems have in common: the recorded
		// difference between the flat token model and ComparableVersion needs stems of different lengths (or the
		// same stem), so pairs whose stems have the same length and differ form a class of their own
		sa, sb := verifStem(a), verifStem(b)
		switch {
		case sa == sb:
			class = "with-qualifier[same-stem]"
		case strings.Count(sa, ".") == strings.Count(sb, "."):
			class = "with-qualifier[stems-of-equal-length]"
		}
	}
	return verifCompare(verifParse(a), verifParse(b)), class
}

func verifPool() []string {
	stems := []string{"1", "1.0", "1.1", "1.0.0", "1.0.1", "2", "1.10"}
	quals := []string{"alpha", "beta", "milestone", "rc", "cr", "snapshot", "ga", "final", "release", "sp", "foo", "xyz", "dev", "zeta"}
	if verifThorough {
		stems = append(stems, "1.0.0.0", "0.1", "1.2.3", "10.0")
		quals = append(quals, "preview", "build", "abc")
	}
	var out []string
	for _, s := range stems {
		out = append(out, s, s+"-1", s+"-2", s+"-10", s+".0")
		for _, j := range []string{".", "-"} {
			for _, q := range quals {
				for _, qq := range []string{q, strings.ToUpper(q), strings.ToUpper(q[:1]) + q[1:]} {
					for _, n := range []string{"", "1", "2", "-1", ".1"} {
						if qq != q && (n == "2" || n == ".1") {
							continue
						}
						if n != "" && (q == "ga" || q == "final" || q == "release") {
							continue // ga/final/release followed by more is an exotic chain (not claimed)
						}
						out = append(out, s+j+qq+n)
					}
				}
			}
			for _, al := range []string{"a1", "b1", "m1", "a2", "b2", "m10"} {
				out = append(out, s+j+al)
			}
		}
	}
	return out
}
`},
}

func (r refOrder) source() string {
	src := strings.ReplaceAll(refOrderHarness, "package PKG", "package "+r.pkg)
	src = strings.Replace(src, "REFCODE", fmt.Sprintf("const verifThorough = %v\n\nREFCODE", harnessThorough), 1)
	src = strings.ReplaceAll(src, "REFNAME", r.refName)
	return strings.Replace(src, "REFCODE", r.code, 1)
}

type refOrderResult struct {
	lines map[string]string // class -> "OK ..." | "CX ..."
	out   string
	secs  float64
}

var (
	refOrderMu    sync.Mutex
	refOrderCache = map[string]*refOrderResult{}
)

// runRefOrder runs the harness of one property once per process.
func runRefOrder(w *World, prop string) *refOrderResult {
	refOrderMu.Lock()
	defer refOrderMu.Unlock()
	if r, ok := refOrderCache[prop]; ok {
		return r
	}
	res := &refOrderResult{lines: map[string]string{}}
	refOrderCache[prop] = res
	for _, r := range refOrders {
		if r.prop != prop || w.byShort[r.pkg] == nil {
			continue
		}
		start := time.Now()
		out, _ := runOverlayTest(w, w.byShort[r.pkg], r.source(), 240*time.Second)
		res.secs = time.Since(start).Seconds()
		res.out = out
		for _, ln := range strings.Split(out, "\n") {
			if rest, ok := strings.CutPrefix(ln, "VERIF-CLASS "); ok {
				if k := strings.Index(rest, " "); k > 0 {
					res.lines[rest[:k]] = rest[k+1:]
				}
			}
		}
	}
	return res
}

// refOrderFalsifier is the replay for a failed contract clause of C10-C13: the first difference the harness finds.
func refOrderFalsifier(w *World, prop string) *Counterexample {
	r := runRefOrder(w, prop)
	cx := &Counterexample{How: "real NewVersion+Compare on a grid of version texts against a transcription of the native tool's algorithm", Output: truncate(lastLines(r.out, 8), 1500), Observed: "no difference observed"}
	// a class whose difference is a recorded finding (and within its recorded extent) is not a failing input for anything
	// else: without this, a stale contract in a package with a recorded finding was "confirmed" by the finding itself
	findings := loadFindings()
	var classes []string
	for c := range r.lines {
		classes = append(classes, c)
	}
	sort.Strings(classes)
	for _, c := range classes {
		ln := r.lines[c]
		rest, ok := strings.CutPrefix(ln, "CX ")
		if !ok {
			continue
		}
		recorded := false
		for i := range findings {
			f := &findings[i]
			if f.Property == prop && strings.HasSuffix(f.Obligation, ".reference-order["+c+"].bounded") && f.covers(ln) {
				recorded = true
			}
		}
		if recorded {
			continue
		}
		cx.Confirmed, cx.Observed = true, rest
		break
	}
	return cx
}

func (r refOrder) classNames() []string {
	if len(r.classes) == 0 {
		return []string{"all"}
	}
	return r.classes
}

func (w *World) refOrderVCs(prop string) []VC {
	var vcs []VC
	for _, r := range refOrders {
		r := r
		if r.prop != prop {
			continue
		}
		fn := w.funcs[r.pkg+".(*Version).Compare"]
		if fn == nil {
			continue
		}
		for _, c := range r.classNames() {
			c := c
			name := r.pkg + ".(*Version).Compare.reference-order.bounded"
			clause := "Compare(NewVersion(x), NewVersion(y)) has the sign that " + r.refName + " gives for the texts x, y"
			if c != "all" {
				name = r.pkg + ".(*Version).Compare.reference-order[" + c + "].bounded"
				clause += " (pairs decided by the rule: " + c + ")"
			}
			vcs = append(vcs, VC{Name: name, Prop: prop, Kind: "bounded.api", Fn: r.pkg + ".(*Version).Compare", Pos: w.pos(fn.Pos()),
				Clause: clause, Bounded: r.bound,
				Run: func() SolveResult {
					rr := runRefOrder(w, prop)
					res := SolveResult{Solver: "enumeration(go test -overlay)", Seconds: rr.secs / float64(len(r.classNames()))}
					ln, ok := rr.lines[c]
					switch {
					case !ok:
						res.Status, res.Output = "error", truncate(lastLines(rr.out, 8), 1500)
					case strings.HasPrefix(ln, "OK"):
						res.Status, res.Output = "unsat", ln
					default:
						res.Status, res.Output = "sat", ln
						res.cx = &Counterexample{How: "real " + r.pkg + " NewVersion+Compare against a transcription of " + r.refName, Confirmed: true, Observed: strings.TrimPrefix(ln, "CX "), Output: ln}
					}
					return res
				}})
		}
	}
	return vcs
}

package main

// C17 falsifier and bounded obligation: single-point corruptions of valid VERS ranges through the real vers.Contains.
// The oracle is the validity grammar of the property statement, written out in the harness: a range is well formed when
// it is "vers:" + [a-z0-9]+ (a supported scheme) + "/" + constraints separated by "|", each comparator followed by a
// version, all characters printable ASCII; anything else must give an error and false.

import (
	"strings"
	"time"

	"golang.org/x/tools/go/ssa"
)

const versValidTmpl = `package vers

import (
	"fmt"
	"strings"
	"testing"
)

func TestVerifReplay(t *testing.T) {
	supported := map[string]bool{"alpine": true, "cargo": true, "deb": true, "gem": true, "generic": true, "golang": true, "maven": true, "npm": true, "nuget": true, "pypi": true, "rpm": true}
	// wellFormed: the syntactic part of the property's validity rule (version acceptance is left to the ecosystem)
	wellFormed := func(r string) (ok bool, scheme string) {
		for i := 0; i < len(r); i++ {
			if r[i] < 32 || r[i] > 126 {
				return false, ""
			}
		}
		if !strings.HasPrefix(r, "vers:") {
			return false, ""
		}
		rest := r[5:]
		k := strings.Index(rest, "/")
		if k < 0 {
			return false, ""
		}
		scheme = rest[:k]
		if scheme == "" {
			return false, ""
		}
		for i := 0; i < len(scheme); i++ {
			c := scheme[i]
			if !((c >= 'a' && c <= 'z') || (c >= '0' && c <= '9')) {
				return false, ""
			}
		}
		if !supported[scheme] {
			return false, scheme
		}
		cs := rest[k+1:]
		if strings.TrimSpace(cs) == "" {
			return false, scheme
		}
		n := 0
		for _, c := range strings.Split(cs, "|") {
			c = strings.ReplaceAll(c, " ", "")
			if c == "" {
				continue
			}
			n++
			if c == "*" {
				return false, scheme // a star next to other constraints / handled separately (not covered)
			}
			op := ""
			for _, o := range []string{">=", "<=", "!=", ">", "<", "="} {
				if strings.HasPrefix(c, o) {
					op = o
					break
				}
			}
			if op == "" || len(c) == len(op) {
				return false, scheme
			}
		}
		return n > 0, scheme
	}
	bases := []string{"vers:npm/>=1.0.0|<2.0.0", "vers:deb/>=1.0-1|<=2.0", "vers:pypi/!=1.5|>1.0", "vers:generic/=1.2.3", "vers:maven/<=1.0|>2.0"}
	probe := map[string]string{"npm": "1.5.0", "deb": "1.5", "pypi": "1.2", "generic": "1.2.3", "maven": "1.0"}
	repl := []byte{'x', 'A', '/', '|', ':', ' ', '*', '=', '<', 0x1f, 0x7f, 0xc3}
	n, bad := 0, 0
	first := ""
	check := func(r, p string) {
		ok, _ := wellFormed(r)
		if ok {
			return // whether it is accepted then depends on the ecosystem's parser; only rejections are decided here
		}
		if strings.ReplaceAll(strings.TrimPrefix(r, "vers:"), " ", "") == "" {
			return
		}
		if k := strings.Index(r, "/"); k >= 0 && strings.TrimSpace(strings.ReplaceAll(r[k+1:], "|", "")) == "*" {
			return // the lone star is not covered
		}
		n++
		got, err := Contains(r, p)
		if err == nil || got {
			bad++
			if first == "" {
				first = fmt.Sprintf("Contains(%q, %q) = (%v, %v): the range is malformed, an error and false are required", r, p, got, err)
			}
		}
	}
	for _, b := range bases {
		sc := b[5:strings.Index(b, "/")]
		p := probe[sc]
		for i := 0; i <= len(b); i++ {
			if i < len(b) {
				check(b[:i]+b[i+1:], p) // delete
				for _, c := range repl {
					check(b[:i]+string([]byte{c})+b[i+1:], p) // replace
				}
				if b[i] >= 'a' && b[i] <= 'z' && i < strings.Index(b, "/") {
					check(b[:i]+strings.ToUpper(b[i:i+1])+b[i+1:], p) // case change
				}
			}
			for _, c := range repl {
				check(b[:i]+string([]byte{c})+b[i:], p) // insert
			}
		}
		// printable non-ASCII runes
		for _, u := range []string{"é", "中", "١"} {
			check(b+u, p)
			check(strings.Replace(b, "/", "/"+u, 1), p)
		}
	}
	for _, near := range []string{"debian", "semver", "go", "rubygems", "pip", "NPM", "npm2", "np", "", "cran", "composer", "conan", "hex"} {
		check("vers:"+near+"/>=1.0.0", "1.0.0")
	}
	// constraint lists without a single constraint (only separators and blanks), for every supported scheme
	for sc := range supported {
		for _, cs := range []string{"", " ", "|", " | ", "||", "| |", "  |  |  "} {
			check("vers:"+sc+"/"+cs, "1.0.0")
		}
	}
	if bad > 0 {
		fmt.Printf("VERIF-CX %s (%d of %d malformed ranges were answered)\n", first, bad, n)
		return
	}
	fmt.Printf("VERIF-OK evals=%d\n", n)
}
`

func versValidFalsifier(w *World, fn *ssa.Function, r vcResult) *Counterexample {
	pkg := w.byShort["vers"]
	if pkg == nil {
		return nil
	}
	out, _ := runOverlayTest(w, pkg, versValidTmpl, 180*time.Second)
	cx := &Counterexample{How: "real vers.Contains on every single-point corruption (delete / replace / insert / case change) of five valid ranges, near-miss scheme names and non-ASCII runes", Output: truncate(lastLines(out, 6), 1500), Observed: "no difference observed"}
	for _, ln := range strings.Split(out, "\n") {
		if rest, ok := strings.CutPrefix(ln, "VERIF-CX "); ok {
			cx.Confirmed, cx.Observed = true, rest
		}
	}
	return cx
}

func (w *World) versValidVC() []VC {
	return []VC{{Name: "vers.Contains.c17.malformed-rejected.bounded", Prop: "C17", Kind: "bounded.api", Fn: "vers.Contains", Pos: "pkg/spec/vers/vers.go",
		Clause:  "vers.Contains returns an error and false for every malformed range (prefix, separator, scheme characters, unsupported scheme, constraint without comparator or version, non-printable or non-ASCII character)",
		Bounded: "every single-point corruption (delete, 12 replacement bytes, 12 inserted bytes, case change of the scheme) of five valid ranges, 13 near-miss scheme names, three non-ASCII runes at two positions, seven constraint lists made of separators and blanks only for each of the 11 schemes",
		Run: func() SolveResult {
			start := time.Now()
			cx := versValidFalsifier(w, nil, vcResult{})
			res := SolveResult{Solver: "enumeration(go test -overlay)", Seconds: time.Since(start).Seconds(), cx: cx}
			switch {
			case cx == nil:
				res.Status = "error"
			case cx.Confirmed:
				res.Status, res.Output = "sat", cx.Observed
			case strings.Contains(cx.Output, "VERIF-OK"):
				res.Status, res.Output = "unsat", lastLines(cx.Output, 1)
			default:
				res.Status, res.Output = "error", cx.Output
			}
			return res
		}}}
}

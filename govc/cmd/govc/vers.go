package main

// C04: bounded end-to-end obligations for VERS containment.  groupConstraintsIntoIntervals partitions its input
// with four accumulator loops and then applies count-based heuristics; that is outside what the loop summariser
// can characterise, so the interval semantics is checked by exhaustive enumeration on the real vers.Contains:
// every valid comparator shape with up to N constraints, all 11 schemes, probes at every bound and between.

import (
	"fmt"
	"sort"
	"strings"
	"time"
)

const versTestTmpl = `package vers

import (
	"fmt"
	"strings"
	"testing"
)

func TestVerifReplay(t *testing.T) {
	maxN := %d
	schemes := []string{"alpine", "cargo", "deb", "gem", "generic", "golang", "maven", "npm", "nuget", "pypi", "rpm"}
	ops := []string{"=", "!=", "<", "<=", ">", ">="}
	ver := func(k int) string { return fmt.Sprintf("%%d.0.0", k) }
	var shape []string
	var rec func()
	bad := map[string]string{}
	total, shapes := 0, 0
	check := func() {
		// valid alternation: upper and lower bounds alternate (an optional leading upper, pairs, an optional trailing lower)
		last := ""
		for _, o := range shape {
			if o == "=" || o == "!=" {
				continue
			}
			k := "L"
			if o == "<" || o == "<=" {
				k = "U"
			}
			if k == last {
				return
			}
			last = k
		}
		shapes++
		n := len(shape)
		name := strings.Join(shape, "|")
		// constraint i has version 2*(i+1); probes 1..2n+1
		want := func(p int) bool {
			onlyNE := true
			for i, o := range shape {
				if o == "!=" && p == 2*(i+1) {
					return false
				}
				if o != "!=" {
					onlyNE = false
				}
			}
			if onlyNE {
				return true
			}
			for i, o := range shape {
				if o == "=" && p == 2*(i+1) {
					return true
				}
			}
			// intervals
			pendingLower, pendingIncl, havePending := 0, false, false
			seenBound := false
			for i, o := range shape {
				v := 2 * (i + 1)
				switch o {
				case ">=", ">":
					pendingLower, pendingIncl, havePending = v, o == ">=", true
					seenBound = true
				case "<=", "<":
					upOK := p < v || (o == "<=" && p == v)
					if havePending {
						loOK := p > pendingLower || (pendingIncl && p == pendingLower)
						if loOK && upOK {
							return true
						}
						havePending = false
					} else if !seenBound {
						if upOK {
							return true
						}
					}
					seenBound = true
				}
			}
			if havePending {
				if p > pendingLower || (pendingIncl && p == pendingLower) {
					return true
				}
			}
			return false
		}
		for _, sc := range schemes {
			var cs []string
			for i, o := range shape {
				cs = append(cs, o+ver(2*(i+1)))
			}
			r := "vers:" + sc + "/" + strings.Join(cs, "|")
			for p := 1; p <= 2*n+1; p++ {
				total++
				got, err := Contains(r, ver(p))
				if err != nil {
					if _, seen := bad[name]; !seen {
						bad[name] = fmt.Sprintf("Contains(%%q, %%q) returned an error: %%v", r, ver(p), err)
					}
					continue
				}
				if got != want(p) {
					if _, seen := bad[name]; !seen {
						bad[name] = fmt.Sprintf("Contains(%%q, %%q) = %%v, the intervals the range denotes say %%v", r, ver(p), got, want(p))
					}
				}
			}
		}
		if _, isBad := bad[name]; !isBad {
			fmt.Printf("VERIF-SHAPE\t%%s\tok\t\n", name)
		} else {
			fmt.Printf("VERIF-SHAPE\t%%s\tFAIL\t%%s\n", name, bad[name])
		}
	}
	rec = func() {
		if len(shape) >= 1 {
			check()
		}
		if len(shape) == maxN {
			return
		}
		for _, o := range ops {
			shape = append(shape, o)
			rec()
			shape = shape[:len(shape)-1]
		}
	}
	rec()
	fmt.Printf("VERIF-DONE shapes=%%d evals=%%d failing=%%d\n", shapes, total, len(bad))
}
`

// versShapeVCs runs the harness once and turns every comparator shape into one bounded obligation.
func (w *World) versShapeVCs(tier string) []VC {
	pkg := w.byShort["vers"]
	if pkg == nil {
		return nil
	}
	maxN := 4
	if tier == "thorough" {
		maxN = 6
	}
	start := time.Now()
	out, err := runOverlayTest(w, pkg, fmt.Sprintf(versTestTmpl, maxN), 900*time.Second)
	secs := time.Since(start).Seconds()
	var vcs []VC
	done := false
	var names []string
	status := map[string][2]string{}
	for _, ln := range strings.Split(out, "\n") {
		if strings.HasPrefix(ln, "VERIF-DONE") {
			done = true
		}
		f := strings.Split(ln, "\t")
		if len(f) >= 4 && f[0] == "VERIF-SHAPE" {
			names = append(names, f[1])
			status[f[1]] = [2]string{f[2], f[3]}
		}
	}
	sort.Strings(names)
	bound := fmt.Sprintf("all 11 schemes x every valid comparator shape with 1..%d constraints (versions 2,4,...) x probes 1..2n+1", maxN)
	if !done {
		return []VC{{Name: "vers.Contains.c04.harness", Prop: "C04", Kind: "bounded.api", Fn: "vers.Contains", Bounded: bound,
			Run: func() SolveResult {
				return SolveResult{Status: "error", Output: "harness did not complete: " + fmt.Sprint(err) + " " + truncate(lastLines(out, 6), 600)}
			}}}
	}
	per := secs / float64(len(names)+1)
	for _, nm := range names {
		nm := nm
		st := status[nm]
		vcs = append(vcs, VC{Name: "vers.Contains.c04.shape[" + nm + "]", Prop: "C04", Kind: "bounded.api", Fn: "vers.Contains", Bounded: bound, Pos: "pkg/spec/vers/vers.go",
			Clause: "vers.Contains(range, v) is true exactly for versions equal to no != version and either equal to an = version or inside a denoted interval",
			Run: func() SolveResult {
				if st[0] == "ok" {
					return SolveResult{Status: "unsat", Solver: "enumeration(go test -overlay)", Seconds: per}
				}
				cx := &Counterexample{Confirmed: true, Observed: st[1], How: "real vers.Contains against the interval semantics of the property, computed in the harness"}
				return SolveResult{Status: "sat", Solver: "enumeration(go test -overlay)", Seconds: per, Output: st[1], cx: cx}
			}})
	}
	return vcs
}

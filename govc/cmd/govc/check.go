package main

import (
	"bufio"
	"sync"
	"encoding/json"
	"flag"
	"fmt"
	"os"
	"path/filepath"
	"sort"
	"regexp"
	"strconv"
	"strings"
	"time"
)

const verifDir = "/verif"

// outDir: where evidence/replays/work go (redirected when checking a scratch copy of the repository)
var outDir = envOr("GOVC_OUT", "/verif")

type Finding struct {
	Property   string `json:"property"`
	Obligation string `json:"obligation"`
	What       string `json:"what"`
	Witness    string `json:"witness,omitempty"`
	Fixed      string `json:"fixed,omitempty"`
	// Match narrows a finding on an enumerated (bounded) obligation to the recorded failure: when the obligation fails
	// with an output that does not contain this text, the failure is a different violation and is reported
	Match string `json:"match,omitempty"`
	// MaxBad bounds an enumerated obligation's recorded failure: the finding covers the run only while the harness
	// reports at most this many differing pairs ("(N of M pairs differ)"); more is a different violation
	MaxBad         int `json:"max_bad,omitempty"`
	MaxBadThorough int `json:"max_bad_thorough,omitempty"` // the same bound for the wider grids of the thorough tier
}

// harnessThorough widens the grids of the bounded API harnesses (thorough tier)
var harnessThorough bool

var evalsRe = regexp.MustCompile(`evals=(\d+)`)

var pairsDifferRe = regexp.MustCompile(`\((\d+) of \d+ pairs differ\)`)

func (f *Finding) covers(output string) bool {
	if f.Match != "" && !strings.Contains(output, f.Match) {
		return false
	}
	if limit := f.MaxBad; limit > 0 {
		if harnessThorough && f.MaxBadThorough > 0 {
			limit = f.MaxBadThorough
		}
		m := pairsDifferRe.FindStringSubmatch(output)
		if m == nil {
			return false
		}
		if n, _ := strconv.Atoi(m[1]); n > limit {
			return false
		}
	}
	return true
}

func loadFindings() []Finding {
	var out []Finding
	f, err := os.Open(filepath.Join(verifDir, "known_findings.jsonl"))
	if err != nil {
		return nil
	}
	defer f.Close()
	sc := bufio.NewScanner(f)
	sc.Buffer(make([]byte, 1<<20), 1<<20)
	for sc.Scan() {
		ln := strings.TrimSpace(sc.Text())
		if ln == "" || strings.HasPrefix(ln, "#") || strings.HasPrefix(ln, "fixed:") {
			continue
		}
		var fd Finding
		if json.Unmarshal([]byte(ln), &fd) == nil && fd.Fixed == "" {
			out = append(out, fd)
		}
	}
	return out
}

func loadBaseline(prop string) (map[string]string, error) {
	b, err := os.ReadFile(filepath.Join(verifDir, "baseline", prop+".txt"))
	if err != nil {
		return nil, err
	}
	m := map[string]string{}
	for _, ln := range strings.Split(string(b), "\n") {
		f := strings.SplitN(strings.TrimSpace(ln), "\t", 2)
		if f[0] == "" || strings.HasPrefix(f[0], "#") {
			continue
		}
		kind := ""
		if len(f) > 1 {
			kind = f[1]
		}
		m[f[0]] = kind
	}
	return m, nil
}

type Evidence struct {
	PropertyID  string         `json:"property_id"`
	Tier        string         `json:"tier"`
	Seed        int            `json:"seed"`
	Level       string         `json:"level"`
	Coverage    map[string]any `json:"coverage"`
	Assumptions []string       `json:"assumptions"`
	WallS       float64        `json:"wall_s"`
	Violations  int            `json:"violations"`
}

// propExtra lets a property add obligations that are not plain contract clauses.
type propDriver struct {
	safe   bool
	extra  func(w *World, tier string) []VC
	notes  []string
}

var propDrivers = map[string]*propDriver{
	"C06": {safe: true, extra: func(w *World, tier string) []VC {
		var vcs []VC
		for _, eco := range sortEcosystems {
			fn := w.funcs[eco+".(*Ecosystem).NewVersion"]
			if fn == nil {
				continue
			}
			vcs = append(vcs, VC{Name: eco + ".(*Ecosystem).NewVersion.c06[no-panic].bounded", Prop: "C06", Kind: "bounded.api", Fn: eco + ".(*Ecosystem).NewVersion", Pos: w.pos(fn.Pos()),
				Clause:  eco + ": NewVersion, NewVersionRange, Compare and Contains never panic and the constructors return exactly one of value and error",
				Bounded: "the package's own literals, every string up to length 3 over the syntax alphabet, malformed range fragments, and strings mixing multi-byte runes, invalid UTF-8 and NUL with version characters (up to four tokens, also embedded in range syntax)",
				Run:     func() SolveResult { return falsifierAsObligation(w, fn, panicFalsifier) }})
		}
		vcs = append(vcs, w.terminationVCs()...)
		return vcs
	}, notes: []string{
		"C06 claims: absence of run-time panics (index, slice bounds, nil dereference, failed type assertion, division, make with negative length) for every repository function under its contract, callee preconditions at every call site, and value-xor-error for every constructor",
		"termination: every loop of every repository function is a range loop, a counted loop with a fixed bound, or carries a `decreases` clause whose obligations are discharged by SMT (F.termination, back end govc-loopshape + F.loopN.decreases@latch); the static call graph has no cycle (callgraph.acyclic); library callees are assumed to terminate; the time bound (at most quadratic) is not decided by this technique",
	}},
	"C04": {extra: func(w *World, tier string) []VC { return w.versShapeVCs(tier) },
		notes: []string{"C04's interval semantics is a bounded stand-in (exhaustive enumeration of comparator shapes on the real vers.Contains), never counted as proved; the per-function contracts of the VERS chain that are proved are listed under discharged"}},
	"C05": {extra: func(w *World, tier string) []VC { return w.shorthandVCs() },
		notes: []string{"C05 = proved contracts on the direct matching predicates / desugaring functions that the engine reaches (cargo caret and tilde, hex pessimistic, ...) + bounded API obligations per (ecosystem, construct) that run the real NewVersionRange+Contains against the documented interval on a grid of bases and boundary probes; the bounded obligations are stand-ins and never counted as proved"}},
	"C02": {extra: func(w *World, tier string) []VC { return w.rangeOpsVCs() },
		notes: []string{"the per-ecosystem comparators[single|and|or] obligations are bounded stand-ins (real CLI contains vs compare) for the text-to-constraint step of the regexp-based range parsers and for text-to-fields parsing; never counted as proved"}},
	"C03": {extra: func(w *World, tier string) []VC { return w.numOrderVCs() },
		notes: []string{"the struct-level rules are proved for all values; text-to-fields parsing and the ecosystems whose comparison loops are outside govc's summaries are covered by the per-ecosystem bounded API obligations <eco>.(*Version).Compare.c03[...] (stand-ins, never counted as proved)"}},
	"C07": {extra: func(w *World, tier string) []VC { return w.sortVCs() },
		notes: []string{"the contract of slices.SortFunc (the result is a permutation of the input, sorted under a comparison that is a total preorder) is an assumed library contract; the total-preorder premise is C01"}},
	"C17": {extra: func(w *World, tier string) []VC { return w.versValidVC() }},
	"C16": {extra: func(w *World, tier string) []VC { return w.versInvVCs(tier) },
		notes: []string{"C16 is a bounded stand-in (the real vers.Contains on a range and every re-spelling of it); never counted as proved"}},
	"C09": {extra: func(w *World, tier string) []VC { return w.pep440VCs() }},
	"C20": {extra: func(w *World, tier string) []VC { return w.orderPosVCs() }},
	"C15": {extra: func(w *World, tier string) []VC {
		fn := w.funcs["cmd.run"]
		if fn == nil {
			return nil
		}
		return []VC{{Name: "cmd.run.c15[cli-vs-library].bounded", Prop: "C15", Kind: "bounded.api", Fn: "cmd.run", Pos: w.pos(fn.Pos()),
			Clause:  "for every ecosystem name, compare / sort / contains through run() print exactly what the library calls return, on one line, with exit status 0 on success and 1 on any error",
			Bounded: "every registered ecosystem name x versions and ranges harvested from the package sources (incl. texts with % verbs) x the three commands, plus arity and unknown-name cases",
			Run:     func() SolveResult { return falsifierAsObligation(w, fn, cliFalsifier) }}}
	}},
	"C10": {extra: func(w *World, tier string) []VC { return w.refOrderVCs("C10") }},
	"C11": {extra: func(w *World, tier string) []VC { return w.refOrderVCs("C11") }},
	"C12": {extra: func(w *World, tier string) []VC { return w.refOrderVCs("C12") }},
	"C13": {extra: func(w *World, tier string) []VC { return w.refOrderVCs("C13") }},
	"C14": {extra: func(w *World, tier string) []VC { return w.apkBoundedVC() },
		notes: []string{"the numeric-component rule for equal arity without leading zeros is covered by the bounded API obligation only (its SMT proof is not stable); letters, suffix ranks, additional suffixes and the revision are proved for all values"}},
	"C08": {extra: func(w *World, tier string) []VC {
		var vcs []VC
		for _, eco := range []string{"semver", "npm", "cargo", "hex", "golang", "nuget"} {
			fn := w.funcs[eco+".(*Version).Compare"]
			if fn == nil {
				continue
			}
			vcs = append(vcs, VC{Name: eco + ".(*Version).Compare.semver-precedence.bounded", Prop: "C08", Kind: "bounded.api", Fn: w.fnKey(fn),
				Clause: "Compare(NewVersion(x), NewVersion(y)) has the sign of SemVer 2.0.0 section 11 precedence on the texts",
				Bounded: "versions 1.0.0[-id[.id]][+build] with identifiers from a fixed pool of 17 (plus the pseudo-version spellings for golang) and 10 plain triples",
				Pos:     w.pos(fn.Pos()), Run: func() SolveResult {
					start := time.Now()
					cx := semverFalsifier(w, fn, vcResult{})
					res := SolveResult{Solver: "enumeration(go test -overlay)", Seconds: time.Since(start).Seconds(), cx: cx}
					switch {
					case cx == nil:
						res.Status = "error"
					case cx.Confirmed:
						res.Status, res.Output = "sat", cx.Observed
					case strings.Contains(cx.Output, "VERIF-OK"):
						res.Status, res.Output = "unsat", lastLines(cx.Output, 1)
					default:
						res.Status, res.Output = "error", cx.Output
					}
					return res
				}})
		}
		return append(vcs, w.strictGrammarVC()...)
	}, notes: []string{"parse-level agreement (text to fields) is covered by the bounded API obligations <eco>.(*Version).Compare.semver-precedence.bounded; the struct-level clauses are proved for all field values"}},
	"C18": {extra: func(w *World, tier string) []VC { return append(w.textFlowVCs(), w.textAPIVCs()...) },
		notes: []string{
			"C18 = proved postconditions (String() returns the stored text; the stored text is the input or its TrimSpace) + read-frame obligations decided by dataflow over the SSA (raw input used only through strings.TrimSpace; stored text of user-supplied values read only where it is trimmed)",
			"from these, 'parsing the returned text again' and 'padding the input with white space' give the same non-text fields because TrimSpace is idempotent (assumed library contract) and the constructors are deterministic functions of TrimSpace(input) (C19)",
		}},
	"C19": {extra: func(w *World, tier string) []VC {
		vcs := w.frameVCs()
		if tier == "thorough" {
			// the race detector on the real API, one bounded obligation per ecosystem (thorough tier only: about 5 s each)
			for _, eco := range sortEcosystems {
				fn := w.funcs[eco+".(*Version).Compare"]
				if fn == nil {
					continue
				}
				vcs = append(vcs, VC{Name: eco + ".(*Version).Compare.c19[race].bounded", Prop: "C19", Kind: "bounded.api", Fn: eco + ".(*Version).Compare", Pos: w.pos(fn.Pos()),
					Clause:  eco + ": NewVersion / NewVersionRange / Compare / Contains / String called from 8 goroutines on shared values raise no data race and give the sequential answers",
					Bounded: "go test -race: 8 goroutines x shared freshly parsed versions and ranges from the package's own literals",
					Run:     func() SolveResult { return falsifierAsObligation(w, fn, raceFalsifier) }})
			}
		}
		return vcs
	},
		notes: []string{
			"C19 is decided as a frame condition: every write site of every repository function is shown to hit activation-fresh memory by a freshness dataflow over the SSA (back end govc-dataflow, not SMT)",
			"the step from 'all writes are activation-local and shared values are immutable after construction' to race-freedom and history-independence is a paper argument (a data race needs a write to a location another goroutine can reach)",
			"library callees are assumed pure / safe for concurrent use as documented (list in frame.go: pureLib, receiverLocalLib)",
		}},
}

func checkCmd(args []string) int {
	fs := flag.NewFlagSet("check", flag.ExitOnError)
	tier := fs.String("tier", "quick", "quick|thorough")
	mkBaseline := fs.Bool("write-baseline", false, "record the discharged obligations as the committed baseline (maintainer only)")
	verbose := fs.Bool("v", false, "verbose")
	fs.Parse(args)
	prop := fs.Arg(0)
	if t := os.Getenv("VERIF_TIER"); t == "quick" || t == "thorough" {
		*tier = t
	}
	seed, _ := strconv.Atoi(os.Getenv("VERIF_SEED"))
	start := time.Now()
	evPath := filepath.Join(outDir, "evidence", prop+".json")
	os.MkdirAll(filepath.Dir(evPath), 0o755)
	os.Remove(evPath)

	fail := func(msg string) int {
		// machinery failure (not a property verdict): non-zero exit without a VIOLATION line
		fmt.Println("ERROR:", msg)
		return 2
	}
	w, err := loadWorld(repoDir)
	if err != nil {
		// the tree does not build under the verif tag: nothing can be decided
		return fail("cannot load " + repoDir + ": " + err.Error())
	}
	if len(w.loadErrs) > 0 {
		// a contract names a function that no longer exists: its obligations cannot be generated
		for _, e := range w.loadErrs {
			fmt.Println("contract error:", e)
		}
	}
	drv := propDrivers[prop]
	if drv == nil {
		drv = &propDriver{}
	}
	vcs := w.propVCs(prop, drv.safe)
	if drv.extra != nil {
		harnessThorough = *tier == "thorough"
		vcs = append(vcs, drv.extra(w, *tier)...)
	}
	timeout := 10 * time.Second
	if *tier == "thorough" {
		timeout = 60 * time.Second
		wantAgree = true
	}
	workDir := filepath.Join(outDir, "work", prop)
	os.RemoveAll(workDir)
	results := runVCs(vcs, workDir, timeout, 8)
	sort.Slice(results, func(i, j int) bool { return results[i].vc.Name < results[j].vc.Name })
	// second chance for claimed obligations that did not discharge (solver scheduling noise): three times
	// the budget, a few at a time; skipped when many fail at once (then it is not noise)
	if base0, err := loadBaseline(prop); err == nil && !*mkBaseline {
		var retry []int
		for i := range results {
			r := &results[i]
			if _, claimed := base0[r.vc.Name]; !claimed || r.vc.ExpectSat || r.vc.Run != nil || r.vc.Kind == "unsupported" {
				continue
			}
			if r.res.Status == "unknown" || r.res.Status == "timeout" || r.res.Status == "error" {
				retry = append(retry, i)
			}
		}
		if len(retry) > 0 && len(retry) <= 6 {
			var wg sync.WaitGroup
			sem := make(chan struct{}, 3)
			for _, i := range retry {
				wg.Add(1)
				go func(i int) {
					defer wg.Done()
					sem <- struct{}{}
					defer func() { <-sem }()
					r := &results[i]
					file := filepath.Join(workDir, sanitizeFile(r.vc.Name)+".retry.smt2")
					r2 := solve(r.vc.Script, file, 3*timeout, false)
					if r2.Status == "unsat" {
						r2.Output = "discharged on retry"
						r.res = r2
					}
				}(i)
			}
			wg.Wait()
		}
	}

	// termination: F.termination stands on the variant obligations of F.  Their names carry block numbers, which move
	// with the code, so they are taken from this run and not from the baseline: a variant that is no longer established
	// turns the (stably named, claimed) F.termination obligation into a failure.
	{
		badVariant := map[string]string{}
		recBad := ""
		for _, r := range results {
			if strings.Contains(r.vc.Name, ".decreases") && r.res.Status != "unsat" {
				if strings.Contains(r.vc.Name, ".recursion.decreases") {
					recBad = r.vc.Name
				} else if badVariant[r.vc.Fn] == "" {
					badVariant[r.vc.Fn] = r.vc.Name
				}
			}
		}
		for i := range results {
			r := &results[i]
			if r.vc.Kind != "term" || r.res.Status != "unsat" {
				continue
			}
			if strings.HasSuffix(r.vc.Name, ".termination") && badVariant[r.vc.Fn] != "" {
				r.res.Status, r.res.Output = "unknown", "the declared variant is not established: "+badVariant[r.vc.Fn]
			}
			if r.vc.Name == "callgraph.acyclic" && recBad != "" {
				r.res.Status, r.res.Output = "unknown", "the measure of a recursive function is not established: "+recBad
			}
		}
	}

	if *mkBaseline {
		// obligations seen to discharge only some of the time are never claimed (baseline/unstable.txt, one name per line)
		unstable := map[string]bool{}
		if b, err := os.ReadFile(filepath.Join(verifDir, "baseline", "unstable.txt")); err == nil {
			for _, l := range strings.Split(string(b), "\n") {
				if l = strings.TrimSpace(l); l != "" && !strings.HasPrefix(l, "#") {
					unstable[l] = true
				}
			}
		}
		var lines []string
		for _, r := range results {
			if r.vc.ExpectSat {
				continue
			}
			if unstable[r.vc.Name] {
				fmt.Printf("not claimed (listed unstable): %s\n", r.vc.Name)
				continue
			}
			if r.res.Status == "unsat" && r.res.Seconds > 4.0 && r.vc.Run == nil {
				fmt.Printf("not claimed (slow: %.1fs): %s\n", r.res.Seconds, r.vc.Name)
				continue
			}
			if r.res.Status == "unsat" && !condForBaseline(results, r) {
				lines = append(lines, r.vc.Name+"\t"+r.vc.Kind)
			}
		}
		os.MkdirAll(filepath.Join(verifDir, "baseline"), 0o755)
		os.WriteFile(filepath.Join(verifDir, "baseline", prop+".txt"), []byte(strings.Join(lines, "\n")+"\n"), 0o644)
		fmt.Printf("baseline: %d obligations recorded for %s\n", len(lines), prop)
	}
	baseline, err := loadBaseline(prop)
	if err != nil {
		return fail("no baseline for " + prop + ": " + err.Error())
	}
	findings := loadFindings()
	isFinding := func(name string) *Finding {
		for i := range findings {
			if findings[i].Property == prop && findings[i].Obligation == name {
				return &findings[i]
			}
		}
		return nil
	}

	var (
		nObl, nDischarged, nBounded, nCache int
		bySolver                             = map[string]int{}
		solverSecs                           float64
		undecided, unsupported, vacuous      = []string{}, []string{}, []string{}
		violations                           = []string{}
		knownPrinted                         = []string{}
		samples                              []any
		fnSet                                = map[string]bool{}
		assumed                              = map[string]bool{}
		seen                                 = map[string]bool{}
		canaries                             int
	)
	// premises that are themselves not discharged taint their users (fixpoint)
	badFn := map[string]bool{}
	recordedAsFinding := map[string]bool{}
	for _, f := range findings {
		recordedAsFinding[stripTag(f.Obligation)] = true
	}
	isPremiseKind := func(k string) bool {
		return k == "post" || strings.HasPrefix(k, "law.") || k == "bounded.law" || k == "lemma" || k == "unsupported"
	}
	conditional := map[string]string{}
	// a call precondition that is not discharged taints the other obligations of the same function: their VCs assumed
	// the callee's postconditions at that call site
	badPre := map[string]string{}
	for _, r := range results {
		if r.vc.Kind == "pre" && r.res.Status != "unsat" && badPre[r.vc.Fn] == "" {
			badPre[r.vc.Fn] = r.vc.Name
		}
	}
	for _, r := range results {
		if !r.vc.ExpectSat && r.vc.Kind != "pre" && r.res.Status == "unsat" && badPre[r.vc.Fn] != "" && r.vc.Run == nil {
			conditional[r.vc.Name] = badPre[r.vc.Fn]
		}
	}
	// a declared invariant whose own obligations are not all discharged supports nothing: the postconditions of the
	// same function that rest on it (all of them for an ungrouped invariant, those that switch its group on otherwise)
	// are conditional
	{
		badInv := map[string]map[string]string{} // function -> group ("-" ungrouped) -> failing obligation
		for _, r := range results {
			if r.vc.InvOf != "" && r.res.Status != "unsat" {
				if badInv[r.vc.Fn] == nil {
					badInv[r.vc.Fn] = map[string]string{}
				}
				if badInv[r.vc.Fn][r.vc.InvOf] == "" {
					badInv[r.vc.Fn][r.vc.InvOf] = r.vc.Name
				}
			}
		}
		for _, r := range results {
			if r.vc.Kind != "post" || r.res.Status != "unsat" || badInv[r.vc.Fn] == nil || conditional[r.vc.Name] != "" {
				continue
			}
			if b := badInv[r.vc.Fn]["-"]; b != "" {
				conditional[r.vc.Name] = b
				continue
			}
			for _, u := range r.vc.Uses {
				if b := badInv[r.vc.Fn][u]; b != "" {
					conditional[r.vc.Name] = b
					break
				}
			}
		}
	}
	for changed := true; changed; {
		changed = false
		for _, r := range results {
			if r.vc.ExpectSat || !isPremiseKind(r.vc.Kind) || r.vc.Local || recordedAsFinding[stripTag(r.vc.Name)] {
				continue // (a recorded finding is never handed to anybody as a premise, so it cannot taint a user)
			}
			if (r.res.Status != "unsat" || conditional[r.vc.Name] != "") && !badFn[r.vc.Fn] {
				badFn[r.vc.Fn] = true
				changed = true
			}
		}
		for _, r := range results {
			if r.vc.ExpectSat || r.res.Status != "unsat" || conditional[r.vc.Name] != "" {
				continue
			}
			for _, c := range r.vc.Callees {
				if badFn[c] && c != r.vc.Fn {
					conditional[r.vc.Name] = c
					changed = true
					break
				}
			}
		}
	}
	conditionalList := []string{}
	exit := 0
	for _, r := range results {
		name := r.vc.Name
		if c := conditional[name]; c != "" {
			// proved only relative to a callee contract that is not discharged in this check: not counted
			conditionalList = append(conditionalList, name+" (premise: "+c+")")
			r.res.Status = "conditional"
		}
		seen[name] = true
		for _, a := range r.vc.Assumed {
			assumed[a] = true
		}
		if r.vc.ExpectSat {
			canaries++
			if r.res.Status == "unsat" {
				vacuous = append(vacuous, name)
			}
			continue
		}
		if r.vc.Kind == "unsupported" {
			unsupported = append(unsupported, name+": "+r.vc.Unsupported)
			continue
		}
		_, inBase := baseline[name]
		fd := isFinding(name)
		if fd != nil && r.res.Status != "unsat" && !fd.covers(r.res.Output) {
			fd, inBase = nil, true // not the recorded failure
		}
		if r.vc.Kind == "frame" && r.res.Status != "unsat" {
			inBase = true // a write site that violates the frame discipline is decisive even when the site is new
		}
		if !inBase && fd == nil {
			// never claimed: reported as not decided, not as a violation
			if r.res.Status != "unsat" {
				undecided = append(undecided, name+" ("+r.res.Status+")")
				continue
			}
		}
		nObl++
		fnSet[r.vc.Fn] = true
		if r.res.Status == "unsat" {
			if fd != nil {
				fmt.Printf("RESOLVED: property=%s %s now discharges (listed as known finding: %s)\n", prop, name, fd.What)
			}
			if r.vc.Bounded != "" {
				nBounded++
			} else {
				nDischarged++
			}
			if r.res.Cached {
				nCache++
			}
			bySolver[r.res.Solver]++
			solverSecs += r.res.Seconds
			if len(samples) < 4 {
				samples = append(samples, map[string]any{"obligation": name, "kind": r.vc.Kind, "clause": r.vc.Clause, "status": "unsat", "backend": r.res.Solver, "seconds": r.res.Seconds, "smt_bytes": len(r.vc.Script), "at": r.vc.Pos})
			}
			continue
		}
		if fd != nil {
			line := fmt.Sprintf("KNOWN-FINDING: property=%s %s: %s", prop, name, fd.What)
			fmt.Println(line)
			knownPrinted = append(knownPrinted, name)
			nObl--
			continue
		}
		if r.res.Status == "conditional" {
			// proved, but relative to a callee contract that failed in this run: the failed premise is what is reported
			undecided = append(undecided, name+" (conditional on a failed premise)")
			nObl--
			continue
		}
		// a claimed obligation failed
		rp := writeReplay(w, prop, r)
		suffix := ""
		if !rp.Confirmed {
			suffix = " no-failing-input-found"
		}
		fmt.Printf("VIOLATION property=%s replay=%s obligation=%s status=%s%s\n", prop, rp.Path, name, r.res.Status, suffix)
		violations = append(violations, name)
		samples = append(samples, map[string]any{"obligation": name, "kind": r.vc.Kind, "clause": r.vc.Clause, "status": r.res.Status, "replay": rp.Path, "confirmed": rp.Confirmed})
		exit = 1
	}
	// claimed obligations that can no longer be generated
	var missing []string
	for name := range baseline {
		if !seen[name] {
			missing = append(missing, name)
		}
	}
	sort.Strings(missing)
	for _, name := range missing {
		if isFinding(name) != nil {
			continue
		}
		if k := baseline[name]; strings.HasPrefix(k, "safe.") || k == "pre" || k == "inv" || k == "readframe" {
			// run-time-safety obligations are numbered per operation; an operation that no longer exists needs no proof
			continue
		}
		if baseline[name] == "frame" {
			// write sites are numbered per function; a function whose sites changed is judged by its current sites
			continue
		}
		rp := writeMissingReplay(prop, name, unsupported, w.loadErrs)
		suffix := " no-failing-input-found"
		// the obligation is gone, but the property can still be probed on the real code of that function's package
		fnKey := name
		for _, sep := range []string{".post[", ".law", ".lemma."} {
			if i := strings.Index(fnKey, sep); i > 0 {
				fnKey = fnKey[:i]
			}
		}
		if fn := w.funcs[fnKey]; fn != nil {
			if f := propFalsifiers[prop]; f != nil {
				if cx := f(w, fn, vcResult{vc: VC{Name: name, Fn: fnKey}}); cx != nil && cx.Confirmed {
					appendCounterexample(rp, cx)
					suffix = ""
				}
			}
		}
		if suffix != "" {
			// The contract no longer fits the code of this function (a renamed local in a loop invariant, a loop added or
			// removed, ...): the proof is undecided, which is not evidence of a violation.  It is a violation only when the
			// property's own harness finds a failing input on the real code (above); the bounded obligations of the
			// property, which do not depend on the contract text, keep deciding the behaviour.
			stale := ""
			for _, u := range unsupported {
				if strings.HasPrefix(u, fnKey+".") {
					stale = u
				}
			}
			if stale != "" {
				msg := name + " (contract no longer applies: " + stale + ")"
				fmt.Printf("UNDECIDED property=%s obligation=%s reason=%q\n", prop, name, stale)
				undecided = append(undecided, msg)
				continue
			}
		}
		fmt.Printf("VIOLATION property=%s replay=%s obligation=%s status=not-generated%s\n", prop, rp, name, suffix)
		violations = append(violations, name)
		exit = 1
	}
	for _, v := range vacuous {
		fmt.Printf("ERROR: vacuity canary proved unsat (contradictory assumptions): %s\n", v)
		exit = 2
	}
	if nObl == 0 && exit == 0 {
		fmt.Println("ERROR: no obligations generated for", prop)
		exit = 2
	}

	var fns []string
	for f := range fnSet {
		fns = append(fns, f)
	}
	sort.Strings(fns)
	assumptions := []string{
		"Go compiler/runtime and go/types+go/ssa (x/tools v0.29.0) represent the source faithfully",
		"govc SSA->SMT translation: value semantics for pointers/slices (checked discipline: no store after escape), loops cut at back edges with auto-summary/havoc",
		"int arithmetic exact two's-complement (wrap64); lengths <= 2^62",
		"callee contracts used as axioms are re-proved in this same check (untagged and " + prop + "-tagged clauses)",
		"SMT solvers z3 5.1.0 / z3 4.8.12 / cvc5 1.0.3 are sound (unsat results)",
	}
	trusted := []string{}
	for a := range assumed {
		trusted = append(trusted, "assumed library contract: "+a)
	}
	sort.Strings(trusted)
	if drv != nil {
		assumptions = append(assumptions, drv.notes...)
	}
	ev := Evidence{PropertyID: prop, Tier: *tier, Seed: seed, Level: "proof", Assumptions: assumptions, WallS: time.Since(start).Seconds(), Violations: len(violations)}
	ev.Coverage = map[string]any{
		"obligations":              nObl - nBounded,
		"discharged":               nDischarged,
		"bounded_obligations":      nBounded,
		"checker_cmd":              "bin/govc check " + prop + " --tier " + *tier,
		"trusted_base":             trusted,
		"functions_under_contract": fns,
		"discharged_by_backend":    bySolver,
		"solver_seconds":           solverSecs,
		"cache_hits":               nCache,
		"known_findings":           knownPrinted,
		"undecided_not_claimed":    undecided,
		"conditional_on_undischarged_premise": conditionalList,
		"unsupported":              unsupported,
		"vacuity_canaries":         canaries,
		"vacuous":                  vacuous,
		"violations":               violations,
		"samples":                  samples,
		"baseline_size":            len(baseline),
	}
	if len(samples) == 0 {
		ev.Coverage["samples"] = []any{"none"}
	}
	// bounded stand-ins: how much the enumerations of this run covered (measured from the harness reports)
	boundedEvals, boundedRun := 0, 0
	var boundedSamples []any
	for _, r := range results {
		if r.vc.Bounded == "" || r.vc.ExpectSat {
			continue
		}
		boundedRun++
		if m := evalsRe.FindStringSubmatch(r.res.Output); m != nil {
			n, _ := strconv.Atoi(m[1])
			boundedEvals += n
		}
		if len(boundedSamples) < 4 {
			boundedSamples = append(boundedSamples, map[string]any{"obligation": r.vc.Name, "clause": r.vc.Clause, "bound": r.vc.Bounded, "status": r.res.Status, "report": truncate(r.res.Output, 300)})
		}
	}
	if boundedRun > 0 {
		ev.Coverage["bounded_evaluations"] = boundedEvals
		ev.Coverage["bounded_samples"] = boundedSamples
	}
	if nDischarged == 0 && boundedRun > 0 {
		// nothing was discharged deductively: the run is an exploration (bounded enumeration), and is labelled as one
		ev.Level = "exploration"
		ev.Coverage["evaluations"] = boundedEvals
		ev.Coverage["distinct_nontrivial"] = boundedRun
		ev.Coverage["rule"] = "bounded enumeration on the real code; each bounded obligation is one distinct family of cases (its bound is stated in bounded_samples); evaluations are the API calls the harnesses report"
		ev.Coverage["samples"] = boundedSamples
	}
	b, _ := json.MarshalIndent(ev, "", " ")
	os.WriteFile(evPath, b, 0o644)
	fmt.Printf("%s: %d obligations, %d discharged, %d bounded, %d violations, %d known findings, %d undecided(not claimed), %d unsupported, %.1fs\n",
		prop, nObl, nDischarged, nBounded, len(violations), len(knownPrinted), len(undecided), len(unsupported), time.Since(start).Seconds())
	if *verbose {
		for _, u := range undecided {
			fmt.Println("  undecided:", u)
		}
		for _, u := range unsupported {
			fmt.Println("  unsupported:", u)
		}
	}
	return exit
}

// condForBaseline: an obligation whose premises are not all discharged is not recorded as claimed.
func condForBaseline(results []vcResult, r vcResult) bool {
	badFn := map[string]bool{}
	cond := map[string]bool{}
	isPremiseKind := func(k string) bool {
		return k == "post" || strings.HasPrefix(k, "law.") || k == "bounded.law" || k == "lemma" || k == "unsupported"
	}
	badPre := map[string]bool{}
	for _, x := range results {
		if x.vc.Kind == "pre" && x.res.Status != "unsat" {
			badPre[x.vc.Fn] = true
		}
	}
	for _, x := range results {
		if !x.vc.ExpectSat && x.vc.Kind != "pre" && x.res.Status == "unsat" && badPre[x.vc.Fn] && x.vc.Run == nil {
			cond[x.vc.Name] = true
		}
	}
	recorded := map[string]bool{}
	for _, f := range loadFindings() {
		recorded[stripTag(f.Obligation)] = true
	}
	{
		badInv := map[string]map[string]bool{}
		for _, x := range results {
			if x.vc.InvOf != "" && x.res.Status != "unsat" {
				if badInv[x.vc.Fn] == nil {
					badInv[x.vc.Fn] = map[string]bool{}
				}
				badInv[x.vc.Fn][x.vc.InvOf] = true
			}
		}
		for _, x := range results {
			if x.vc.Kind != "post" || x.res.Status != "unsat" || badInv[x.vc.Fn] == nil {
				continue
			}
			if badInv[x.vc.Fn]["-"] {
				cond[x.vc.Name] = true
			}
			for _, u := range x.vc.Uses {
				if badInv[x.vc.Fn][u] {
					cond[x.vc.Name] = true
				}
			}
		}
	}
	for changed := true; changed; {
		changed = false
		for _, x := range results {
			if x.vc.ExpectSat || !isPremiseKind(x.vc.Kind) || x.vc.Local || recorded[stripTag(x.vc.Name)] {
				continue // same exemptions as in the check itself: not a premise of anybody
			}
			if (x.res.Status != "unsat" || cond[x.vc.Name]) && !badFn[x.vc.Fn] {
				badFn[x.vc.Fn] = true
				changed = true
			}
		}
		for _, x := range results {
			if x.vc.ExpectSat || x.res.Status != "unsat" || cond[x.vc.Name] {
				continue
			}
			for _, c := range x.vc.Callees {
				if badFn[c] && c != x.vc.Fn {
					cond[x.vc.Name] = true
					changed = true
					break
				}
			}
		}
	}
	return cond[r.vc.Name]
}

type replayResult struct {
	Path      string
	Confirmed bool
}

func appendCounterexample(path string, cx *Counterexample) {
	b, err := os.ReadFile(path)
	if err != nil {
		return
	}
	var m map[string]any
	if json.Unmarshal(b, &m) != nil {
		return
	}
	m["counterexample"] = cx
	nb, _ := json.MarshalIndent(m, "", " ")
	os.WriteFile(path, nb, 0o644)
}

func writeMissingReplay(prop, name string, unsupported, loadErrs []string) string {
	dir := filepath.Join(outDir, "replays", prop)
	os.MkdirAll(dir, 0o755)
	path := filepath.Join(dir, sanitizeFile(name)+".json")
	b, _ := json.MarshalIndent(map[string]any{
		"property": prop, "obligation": name, "status": "not-generated",
		"explanation": "this obligation was discharged on the reference tree but can no longer be generated from the current source (function or contract clause missing, or the function left the verifiable subset)",
		"unsupported": unsupported, "contract_errors": loadErrs,
	}, "", " ")
	os.WriteFile(path, b, 0o644)
	return path
}

// stripTag removes the property tag of a post obligation name (pkg.F.post[C09]/label -> pkg.F.post/label): a finding
// recorded under one property excludes the clause as a premise under every property.
func stripTag(name string) string {
	i := strings.Index(name, ".post[")
	if i < 0 {
		return name
	}
	j := strings.Index(name[i:], "]")
	if j < 0 {
		return name
	}
	return name[:i+5] + name[i+j+1:]
}

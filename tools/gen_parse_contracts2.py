#!/usr/bin/env python3
"""Generator for the C02 parse-level contracts of the ecosystems whose single-constraint parser returns a one-element
list (semver, golang, gentoo, nuget).  Documents how the committed text in verif_contracts.go was produced."""
import sys
OPS=[">=","<=","!=",">","<","="]
E = {
 'semver': dict(single='parseSingleConstraint', call='parseSingleConstraint({s})', c='c', nv='theEcosystem().NewVersion({s}).{i}', star=True,
    lists=[('parseSpaceSeparatedConstraints','strings.Fields(rangeStr)',False),('parseCommaSeparatedConstraints','strings.Split(rangeStr, ",")',True)]),
 'golang': dict(single='parseSingleGoConstraint', call='parseSingleGoConstraint({s})', c='c', nv=None, star=False,
    lists=[]),
 'nuget': dict(single='parseSingleConstraint', call='parseSingleConstraint(e, {s})', c='c', nv='e.NewVersion({s}).{i}', star=False, default='>=',
    lists=[('parseCommaSeparatedConstraints','strings.Split(rangeStr, ",")',True)]),
}
def gen(eco):
    e=E[eco]; c=f'strings.TrimSpace({e["c"]})'
    out=['', '// ---- range text to constraints (C02): an operator directly before a valid version', '']
    out.append(f'//@ func {e["single"]}')
    star=f'{c} != "*" && ' if e['star'] else ''
    vnn=' && result0[0].version != nil' if e['nv'] and not e['star'] else ''
    out.append(f'//@   ensures one: result1 == nil ==> len(result0) == 1 && result0[0] != nil{vnn}')
    if e['star']:
        out.append(f'//@   ensures star: {c} == "*" ==> result1 == nil && result0[0].operator == "*"   [C02]')
        out.append(f'//@   ensures bound: {c} != "*" && result1 == nil ==> result0[0].version != nil')
    for i,op in enumerate(OPS):
        shadow=''.join(f' && !strings.HasPrefix({c}, "{o}")' for o in OPS[:i] if o.startswith(op) and o!=op)
        rest=f'strings.TrimSpace({c}[{len(op)}:])'
        bound=e['nv'].format(s=rest,i=0) if e['nv'] else rest
        out.append(f'//@   ensures op{op}: {star}strings.HasPrefix({c}, "{op}"){shadow} && result1 == nil ==> result0[0].operator == "{op}" && result0[0].version == {bound}   [C02]')
        if e['nv']:
            need_nonempty = f' && {rest} != ""' if eco!='nuget' else ''
            out.append(f'//@   ensures accepts{op}: {star}strings.HasPrefix({c}, "{op}"){shadow}{need_nonempty} && {e["nv"].format(s=rest,i=1)} == nil ==> result1 == nil   [C02]')
        else:
            out.append(f'//@   ensures accepts{op}: strings.HasPrefix({c}, "{op}"){shadow} ==> result1 == nil   [C02]')
    for (fn,P,skip) in e['lists']:
        out.append('')
        out.append(f'//@ func {fn}')
        if not skip:
            callj=e['call'].format(s='parts[j]')
            out.append(f'//@   loop 1 invariant len(constraints) == rangeindex + 1 && (forall j int :: 0 <= j && j <= rangeindex ==> constraints[j] == {callj}.0[0])')
            callP=e['call'].format(s=f'{P}[j]')
            out.append(f'//@   ensures and-list: result1 == nil ==> len(result0) == len({P}) && (forall j int :: 0 <= j && j < len(result0) ==> result0[j] == {callP}.0[0])   [C02]')
        else:
            callj=e['call'].format(s='strings.TrimSpace(parts[j])')
            out.append(f'//@   loop 1 invariant (forall j int :: 0 <= j && j <= rangeindex ==> strings.TrimSpace(parts[j]) != "") ==> len(constraints) == rangeindex + 1 && (forall j int :: 0 <= j && j <= rangeindex ==> constraints[j] == {callj}.0[0])')
            callP=e['call'].format(s=f'strings.TrimSpace({P}[j])')
            out.append(f'//@   ensures and-list: (forall j int :: 0 <= j && j < len({P}) ==> strings.TrimSpace({P}[j]) != "") && result1 == nil ==> len(result0) == len({P}) && (forall j int :: 0 <= j && j < len(result0) ==> result0[j] == {callP}.0[0])   [C02]')
    return '\n'.join(out)+'\n'
if __name__=='__main__':
    for n in sys.argv[1:]:
        sys.stdout.write(gen(n))

#!/usr/bin/env python3
"""One-off generator for the C02 parse-level contracts of the operator-table ecosystems.
Documents how the committed text in /repo/pkg/ecosystem/*/verif_contracts.go was produced."""
import sys
E = {
 # eco: fn single, params expr for calls, NewVersion call form (None = bound kept as text), ops in table order, list fn, list expr, guard (ops handled before the table)
 'cran':   dict(single='parseConstraint', sparam='constraintStr', call='parseConstraint({s}, e)', nv='e.NewVersion({s}).{i}', ops=[">=","<=","!=",">","<","="], lst='parseConstraints', parts='strings.Split(rangeStr, ",")', pre=[]),
 'debian': dict(single='parseConstraint', sparam='constraintStr', call='parseConstraint({s}, ecosystem)', nv='ecosystem.NewVersion({s}).{i}', ops=[">=","<=",">>","<<","!=",">","<","="], lst='parseConstraints', parts='strings.Split(rangeStr, ",")', pre=[]),
 'rpm':    dict(single='parseRPMConstraint', sparam='constraintStr', call='parseRPMConstraint(e, {s})', nv='e.NewVersion({s}).{i}', ops=[">=","<=","!=",">","<","="], lst='parseRPMConstraints', parts='strings.Fields(strings.ReplaceAll(rangeStr, ",", " "))', pre=[]),
 'alpine': dict(single='parseConstraint', sparam='constraintStr', call='parseConstraint({s})', nv=None, ops=[">=","<=","!=",">","<","="], lst='parseConstraints', parts='strings.Fields(rangeStr)', pre=[]),
 'gem':    dict(single='parseConstraint', sparam='constraintStr', call='parseConstraint({s})', nv=None, ops=[">=","<=","!=",">","<","="], lst='parseConstraints', parts='strings.Split(rangeStr, ",")', pre=["~>"]),
 'cargo':  dict(single='parseConstraint', sparam='constraintStr', call='parseConstraint({s}, ecosystem)', nv='ecosystem.NewVersion({s}).{i}', ops=[">=","<=","!=",">","<","="], lst='parseConstraints', parts='strings.Split(rangeStr, ",")', pre=["^","~"]),
}
def gen(eco):
    e = E[eco]
    c = f'strings.TrimSpace({e["sparam"]})'
    out = ['', '// ---- range text to constraints (C02): an operator directly before a valid version; the list separator means AND', '']
    out.append(f'//@ func {e["single"]}')
    if eco not in ('cran',):
        pass
    out.append('//@   ensures xor: (result0 != nil) == (result1 == nil)')
    if e['nv']:
        out.append('//@   ensures bound: result1 == nil ==> result0.version != nil')
    ops = e['ops']
    pre = ''.join(f' && !strings.HasPrefix({c}, "{p}")' for p in e['pre'])
    for i, op in enumerate(ops):
        # an earlier (longer) table entry that also starts with this operator shadows it
        shadow = ''.join(f' && !strings.HasPrefix({c}, "{o}")' for o in ops[:i] if o.startswith(op) and o != op)
        rest = f'strings.TrimSpace({c}[{len(op)}:])'
        bound = e['nv'].format(s=rest, i=0) if e['nv'] else rest
        out.append(f'//@   ensures op{op}: strings.HasPrefix({c}, "{op}"){shadow}{pre} && result1 == nil ==> result0.operator == "{op}" && result0.version == {bound}   [C02]')
        ok = (f' && {e["nv"].format(s=rest, i=1)} == nil' if e['nv'] else '')
        out.append(f'//@   ensures accepts{op}: strings.HasPrefix({c}, "{op}"){shadow}{pre} && {rest} != ""{ok} ==> result1 == nil   [C02]')
    P = e['parts']
    out.append('')
    out.append(f'//@ func {e["lst"]}')
    callj = e['call'].format(s='strings.TrimSpace(parts[j])')
    out.append(f'//@   loop 1 invariant (forall j int :: 0 <= j && j <= rangeindex ==> strings.TrimSpace(parts[j]) != "") ==> len(constraints) == rangeindex + 1 && (forall j int :: 0 <= j && j <= rangeindex ==> constraints[j] == {callj}.0)')
    callP = e['call'].format(s=f'strings.TrimSpace({P}[j])')
    out.append(f'//@   ensures and-list: (forall j int :: 0 <= j && j < len({P}) ==> strings.TrimSpace({P}[j]) != "") && result1 == nil ==> len(result0) == len({P}) && (forall j int :: 0 <= j && j < len(result0) ==> result0[j] == {callP}.0)   [C02]')
    return '\n'.join(out) + '\n'
if __name__ == '__main__':
    for n in sys.argv[1:]:
        sys.stdout.write(gen(n))

#!/bin/bash
# usage: tools/selftest.sh [ids...]  — must-fail corpus: applies every seeded change (seeded/<id>/patch.diff) to a scratch
# worktree and runs the check of its property; a seed that is not reported is printed as MISS.  Run after engine changes.
cd /verif
ids=${@:-$(ls seeded)}
for id in $ids; do
  prop=${id:0:3}   # seeded/C01b is a second seed for property C01
  out=$(tools/mutcheck.sh seeded/$id/patch.diff $prop 2>&1)
  n=$(echo "$out" | grep -c "^VIOLATION property=$prop")
  if [ "$n" -gt 0 ]; then echo "CAUGHT $id ($n violations): $(echo "$out" | grep "^VIOLATION" | head -1 | sed 's/.*obligation=\([^ ]*\).*/\1/')"; else echo "MISS   $id: $(echo "$out" | tail -1)"; fi
done

#!/bin/bash
# usage: tools/mutcheck.sh <patch.diff> <prop>...   — applies a patch to a scratch worktree of /repo, runs the given checks there, removes the worktree.
set -u
patch=$(readlink -f "$1"); shift
wt=$(mktemp -d /tmp/govc-mut-XXXXXX)
rmdir "$wt"
out=$(mktemp -d /tmp/govc-mutout-XXXXXX)   # one output directory per invocation: concurrent runs must not share it
git -C /repo worktree add -q "$wt" HEAD || exit 3
trap 'git -C /repo worktree remove --force "$wt" >/dev/null 2>&1; rm -rf "$wt" "$out"' EXIT
if ! git -C "$wt" apply "$patch"; then echo "PATCH DOES NOT APPLY"; exit 3; fi
(cd "$wt" && go build ./... ) || { echo "MUTANT DOES NOT BUILD"; exit 3; }
if [ "${MUT_TESTS:-0}" = 1 ]; then (cd "$wt" && go test -mod=mod -vet=off -count=1 ./... 2>&1 | grep -v "^ok\|no test files" | head -20); fi
for p in "$@"; do
  GOVC_REPO="$wt" GOVC_OUT="$out" ${GOVC_BIN:-/verif/bin/govc} check "$p" 2>&1 | grep "VIOLATION\|^C[0-9][0-9]:\|ERROR" | sed "s|$wt|<wt>|g; s|$out|<out>|g" | cut -c1-400
done

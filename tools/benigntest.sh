#!/bin/bash
# usage: tools/benigntest.sh — must-pass corpus: harmless refactorings (tools/benign/*.diff) applied in a scratch
# worktree must raise no VIOLATION in any of the listed checks.
cd /verif
declare -A props=( [b0_rename_sort]="C07 C15" [b1_rename_npm]="C02 C06" [b2_msg_debian]="C06 C10 C18" [b3_switch_semver]="C01 C03 C08" [b4_local_gem]="C13 C01" [b5_min_cran]="C03 C01 C06" [b6_rename_debian_scanner]="C10 C06 C01" [b7_rename_vers_seen]="C16 C04 C06" [b8_rename_vers_pairing]="C04 C17 C06" [b9_switch_rpm_tail]="C11 C06 C01" [b10_rename_vers_toranges]="C04 C16" [b11_rename_builder_locals]="C12 C13 C06" )
for f in tools/benign/*.diff; do
  n=$(basename $f .diff)
  out=$(tools/mutcheck.sh $f ${props[$n]} 2>&1)
  v=$(echo "$out" | grep -c "^VIOLATION")
  if [ "$v" -eq 0 ]; then echo "QUIET  $n (${props[$n]})"; else echo "ALARM  $n: $(echo "$out" | grep "^VIOLATION" | head -2 | cut -c1-200)"; fi
done

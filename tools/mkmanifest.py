#!/usr/bin/env python3
"""Regenerates /verif/MANIFEST.json from the table below (kept valid at all times)."""
import json, subprocess, sys

CLAIMED = json.load(open('/verif/tools/claims.json'))
props = [json.loads(l) for l in open('/verif/properties.jsonl')]
hooks = subprocess.run(['git','-C','/repo','log','--format=%H %s'],capture_output=True,text=True).stdout.splitlines()
hook_commits = [l.split()[0] for l in hooks if ' verif:' in l or ' verif hook' in l]

checks, na = [], []
for p in props:
    pid = p['id']
    c = CLAIMED.get(pid)
    if not c or c.get('na'):
        na.append({"property_id": pid, "reason": (c or {}).get('na', 'not yet built in this round (see DESIGN.md section 6 build order)')})
        continue
    checks.append({
        "property_id": pid,
        "quick_cmd": f"bin/govc check --tier quick {pid}",
        "thorough_cmd": f"bin/govc check --tier thorough {pid}",
        "evidence_file": f"/verif/evidence/{pid}.json",
        "replay_cmd_template": "bin/govc replay {path}",
        "engine": "govc",
        "level_claimed": {"category": c.get('category', 'proof'), "text": c['text'], "design_ref": c.get('design_ref', 'DESIGN.md section 2 ' + pid)},
        "level_note": c['note'],
        "technique": c.get('technique', 'contract-based deductive verification: VCs generated from go/ssa of the real code, discharged by z3/cvc5'),
    })
m = {
    "version": 1,
    "setup_cmd": "cd /verif/govc && GOFLAGS=-mod=vendor GOPROXY=off go build -o ../bin/govc ./cmd/govc",
    "hooks": {
        "guard": "verif",
        "enable": "go build -tags verif (comment-only contract files verif_contracts.go; govc loads /repo with -tags=verif)",
        "baseline_off_cmd": "cd /repo && go test -mod=mod -vet=off -count=1 ./...",
        "source_commits": hook_commits,
        "add_only": True,
    },
    "engines": [{"name": "govc", "path": "/verif/govc", "serves_properties": [c['property_id'] for c in checks],
                 "kind_free_text": "own VC generator over go/ssa (weakest-precondition style block encoding, loop auto-summaries), contracts in //@ comments, SMT back ends z3 4.8.12 / z3 5.1.0 / cvc5 1.0.3 raced per obligation"}],
    "checks": checks,
    "not_applicable": na,
    "notes": "Every check rebuilds its VCs from /repo's current working tree. Failed obligations that were discharged on the reference tree (baseline/<id>.txt) are violations; known_findings.jsonl lists recorded genuine defects.",
}
json.dump(m, open('/verif/MANIFEST.json','w'), indent=1)
print(len(checks), 'claimed;', len(na), 'not applicable')

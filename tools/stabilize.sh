#!/bin/bash
# usage: tools/stabilize.sh <prop> [runs]  — (re)writes the baseline, then re-runs the check and drops from the
# baseline every obligation that fails to discharge in any run (claims must be stable, not lucky).
p=$1; n=${2:-2}
cd /verif
bin/govc check -write-baseline $p | tail -1
for i in $(seq 1 $n); do
  out=$(bin/govc check $p)
  echo "$out" | tail -1
  echo "$out" | grep "^VIOLATION" | sed 's/.*obligation=\([^ ]*\) status.*/\1/' | while read o; do
    echo "  dropping unstable claim: $o"
    echo "$o" >> baseline/unstable.txt
    grep -vF "$o	" baseline/$p.txt > baseline/$p.tmp; mv baseline/$p.tmp baseline/$p.txt
  done
done

#!/usr/bin/env python3
"""Generator for the range-level C20 lemma (versions that compare equal are treated alike by a whole AND-range of
comparator constraints).  Reads the Contains `and` clause and the c20-equal lemma of a package's verif_contracts.go and
prints the lifted lemma.  Documents how the committed text was produced."""
import re, sys
def gen(path):
    s = open(path).read()
    m = re.search(r'//@ func \(\*VersionRange\)\.Contains\n((?://@.*\n)+)', s)
    if not m: return None
    block = m.group(1)
    req = re.findall(r'//@\s+requires (.*)', block)
    a = re.search(r'ensures and: result == \((forall i int :: .*)\)\s+\[', block)
    if not a: return None
    F = a.group(1)
    recv = re.search(r'len\((\w+)\.constraints\)', F).group(1)
    lem = re.search(r'//@ lemma c20-equal \[C20\]: forall (.*?) :: (.*) ==> (.*)', s)
    if not lem: return None
    decl, hyp, concl = lem.group(1), lem.group(2), lem.group(3)
    # hypotheses of the per-constraint lemma about c, rewritten for the i-th constraint of the range
    parts = [p.strip() for p in re.split(r' && (?![^()]*\))', hyp)]
    per_c, extra_vars = [], ''
    for p in parts:
        if p.startswith('trigger(') or 'Compare(' in p or re.fullmatch(r'v[12] != nil', p): continue
        if p == 'c != nil': continue
        per_c.append(p)
    cvar = f'{recv}.constraints[i]'
    cond = ' && '.join(re.sub(r'\bc\b', cvar, p) for p in per_c if re.search(r'\bc\b', p))
    others = [p for p in per_c if not re.search(r'\bc\b', p)]
    if 'ecosystem' in decl:
        extra_vars = ', ecosystem *Ecosystem'
    F1 = re.sub(r'\bversion\b', 'v1', F); F2 = re.sub(r'\bversion\b', 'v2', F)
    hyps = [f'{recv} != nil', 'v1 != nil', 'v2 != nil'] + [r for r in req] + others
    if cond:
        hyps.append(f'(forall i int :: 0 <= i && i < len({recv}.constraints) ==> {cond})')
    hyps.append('v1.Compare(v2) == 0')
    return (f'// lifting to whole ranges: an AND-range of comparator constraints treats versions that compare equal alike (the two\n'
            f'// quantified sides are what Contains returns for v1 and v2, by its `and` clause)\n'
            f'//@ lemma c20-range-equal [C20] uses c20-equal: forall {recv} *VersionRange, v1, v2 *Version{extra_vars} :: ' + ' && '.join(hyps) + f' ==> (({F1}) == ({F2}))\n')
def gen_convex(path):
    s = open(path).read()
    m = re.search(r'//@ func \(\*VersionRange\)\.Contains\n((?://@.*\n)+)', s)
    if not m: return None
    block = m.group(1)
    req = re.findall(r'//@\s+requires (.*)', block)
    a = re.search(r'ensures and: result == \((forall i int :: .*)\)\s+\[', block)
    lem = re.search(r'//@ lemma c20-convex \[C20\]: forall (.*?) :: (.*) ==> (.*)', s)
    if not a or not lem: return None
    F = a.group(1)
    recv = re.search(r'len\((\w+)\.constraints\)', F).group(1)
    decl, hyp = lem.group(1), lem.group(2)
    parts = [p.strip() for p in re.split(r' && (?![^()]*\))', hyp)]
    per_c = [p for p in parts if not p.startswith('trigger(') and 'Compare(' not in p and not re.fullmatch(r'[abd] != nil', p) and p != 'c != nil' and not re.match(r'\w+\((a|d), c', p) and not re.match(r'c\.matches\((a|d)\)', p)]
    cvar = f'{recv}.constraints[i]'
    cond = ' && '.join(re.sub(r'\bc\b', cvar, p) for p in per_c if re.search(r'\bc\b', p))
    others = [p for p in per_c if not re.search(r'\bc\b', p)]
    extra_vars = ', ecosystem *Ecosystem' if 'ecosystem' in decl else ''
    Fa, Fb, Fd = (re.sub(r'\bversion\b', x, F) for x in 'abd')
    hyps = [f'{recv} != nil', 'a != nil', 'b != nil', 'd != nil'] + req + others
    if cond:
        hyps.append(f'(forall i int :: 0 <= i && i < len({recv}.constraints) ==> {cond})')
    hyps += ['a.Compare(b) <= 0', 'b.Compare(d) <= 0', f'({Fa})', f'({Fd})']
    return (f'// ... and the set a range without != accepts is convex in the order\n'
            f'//@ lemma c20-range-convex [C20] uses c20-convex: forall {recv} *VersionRange, a, b, d *Version{extra_vars} :: ' + ' && '.join(hyps) + f' ==> ({Fb})\n')
if __name__ == '__main__':
    if sys.argv[1] == '--convex':
        for p in sys.argv[2:]:
            t = gen_convex(p)
            sys.stdout.write(t if t else f'// (no lemma generated for {p})\n')
        sys.exit(0)
    for p in sys.argv[1:]:
        t = gen(p)
        sys.stdout.write(t if t else f'// (no lemma generated for {p})\n')

#!/bin/bash
# usage: tools/seedrun.sh <id> [props...]  — confirm a sub-agent seed from /tmp/seed2/out/<id> and run the checks on it
id=$1; shift
d=${SEEDDIR:-/tmp/seed2}/out/$id
pkg=$(python3 -c "import json;print(json.load(open('$d/meta.json'))['package'])")
echo "== $id ($pkg)"; python3 -c "import json;print(json.load(open('$d/meta.json'))['summary'][:300])"
tools/confirm_seed.sh $id $d/patch.diff $d/demo_test.go.txt $pkg
for p in ${@:-$id}; do tools/mutcheck.sh $d/patch.diff $p | (head -4; tail -1); done

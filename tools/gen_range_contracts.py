#!/usr/bin/env python3
"""One-off generator for the C02/C20 range contracts (the 20 ecosystems share one shape).
The generated text is committed in /repo/pkg/ecosystem/*/verif_contracts.go; this script only documents how it was produced."""
import sys
REL = {'eq': '== 0', 'ne': '!= 0', 'lt': '< 0', 'le': '<= 0', 'gt': '> 0', 'ge': '>= 0'}
STD = {'=': 'eq', '!=': 'ne', '<': 'lt', '<=': 'le', '>': 'gt', '>=': 'ge'}
NO_NE = {k: v for k, v in STD.items() if k != '!='}
ECO = {
 # name: (kind, funcKey, recvRange, constraintsField, ops, extra-ops-handled-elsewhere, bound: ptr|text, preOps (wildcards...), matchCall)
 'alpm':       dict(fn='(*constraint).matches', call='c.matches({v})', ops=NO_NE, bound='ptr', rr='r'),
 'apache':     dict(fn='(*constraint).matches', call='c.matches({v})', ops=NO_NE, bound='ptr', rr='r'),
 'github':     dict(fn='(*constraint).matches', call='c.matches({v})', ops=NO_NE, bound='ptr', rr='r'),
 'mattermost': dict(fn='(*constraint).matches', call='c.matches({v})', ops=NO_NE, bound='ptr', rr='r'),
 'hex':        dict(fn='(*constraint).matches', call='c.matches({v})', ops=NO_NE, bound='ptr', rr='r'),
 'gentoo':     dict(fn='(*constraint).matches', call='c.matches({v})', ops=STD, bound='ptr', rr='gr'),
 'nuget':      dict(fn='(*constraint).matches', call='c.matches({v})', ops=STD, bound='ptr', rr='nr'),
 'cran':       dict(fn='satisfiesConstraint', call='satisfiesConstraint({v}, c)', ops=STD, bound='ptr', rr='vr'),
 'rpm':        dict(fn='satisfiesRPMConstraint', call='satisfiesRPMConstraint({v}, c)', ops=STD, bound='ptr', rr='vr'),
 'debian':     dict(fn='satisfiesConstraint', call='satisfiesConstraint({v}, c)', ops=dict(STD, **{'>>': 'gt', '<<': 'lt'}), bound='ptr', rr='vr'),
 'semver':     dict(fn='(*constraint).matches', call='c.matches({v})', ops=STD, bound='ptr', rr='sr', star=True, nilver=True),
 'cargo':      dict(fn='satisfiesConstraint', call='satisfiesConstraint({v}, c)', ops=STD, bound='ptr', rr='vr', others=['^', '~']),
 'alpine':     dict(fn='satisfiesConstraint', call='satisfiesConstraint({v}, c, ecosystem)', ops=STD, bound='text', rr='vr', ecoParam=True),
 'gem':        dict(fn='satisfiesConstraint', call='satisfiesConstraint({v}, c, ecosystem)', ops=STD, bound='text', rr='vr', ecoParam=True, others=['~>']),
 'golang':     dict(fn='(*constraint).matches', call='c.matches({v})', ops=dict(STD, **{'==': 'eq'}), bound='text', rr='gr'),
 'pypi':       dict(fn='(*constraint).matches', call='c.matches({v})', ops={'==': 'eq', '!=': 'ne', '<': 'lt', '<=': 'le', '>': 'gt', '>=': 'ge'}, bound='text', rr='pr', others=['==='], preparse=['===']),
}
def gen(name):
    e = ECO[name]
    out = []
    out.append('')
    out.append('// ---- ranges (C02: a comparator holds exactly when Compare says so; C20: membership depends only on order position)')
    out.append('')
    if e['bound'] == 'ptr':
        bound = 'c.version'
        okc = 'true'
        wfc = 'X != nil' + ('' if e.get('nilver') else ' && X.version != nil')
    else:
        eco = 'ecosystem' if e.get('ecoParam') else 'theEcosystem()'
        bound = f'{eco}.NewVersion(c.version).0'
        okc = f'{eco}.NewVersion(c.version).1 == nil'
        wfc = 'X != nil'
    cons = f'{e["rr"]}.constraints'
    out.append(f'//@ spec wfRange({e["rr"]} *VersionRange) bool = forall i int :: 0 <= i && i < len({cons}) ==> ' + wfc.replace('X', f'{cons}[i]'))
    out.append('')
    out.append(f'//@ func {e["fn"]}')
    if e['bound'] == 'ptr' and not e.get('nilver'):
        out.append('//@   requires c.version != nil')
    pre = okc
    if e.get('star'):
        out.append('//@   ensures op*: c.operator == "*" ==> result   [C02 C20]')
        out.append('//@   ensures nil-bound: c.operator != "*" && c.version == nil ==> !result   [C02 C20]')
        pre = 'c.version != nil'
    if e['bound'] == 'text':
        special = ' && '.join(f'c.operator != "{o}"' for o in e.get('preparse', [])) or 'true'
        out.append(f'//@   ensures bad-bound: {special} && !({okc}) ==> !result   [C02 C20]')
    for op, rel in e['ops'].items():
        g = f'c.operator == "{op}"'
        if pre != 'true':
            g = f'{pre} && ' + g
        out.append(f'//@   ensures op{op}: {g} ==> result == (version.Compare({bound}) {REL[rel]})   [C02 C20]')
    known = list(e['ops'].keys()) + e.get('others', []) + (['*'] if e.get('star') else [])
    out.append('//@   ensures other: ' + ' && '.join(f'c.operator != "{o}"' for o in known) + ' ==> !result   [C02 C20]')
    out.append('')
    out.append(f'//@ func (*VersionRange).Contains')
    out.append(f'//@   requires wfRange({e["rr"]})')
    call = e['call'].replace('c.', f'{cons}[i].').replace(', c', f', {cons}[i]').format(v='version')
    if e.get('ecoParam'):
        call = call.replace('ecosystem', 'theEcosystem()')
    out.append(f'//@   ensures and: result == (forall i int :: 0 <= i && i < len({cons}) ==> {call})   [C02 C20]')
    out.append('')
    # C20 lemmas on comparator operators
    cmpops = ' || '.join(f'c.operator == "{o}"' for o in e['ops'])
    nonne = ' && c.operator != "!="' if '!=' in e['ops'] else ''
    req = 'c != nil' + (' && c.version != nil' if e['bound'] == 'ptr' else '')
    if e['bound'] == 'text':
        eco = 'ecosystem' if e.get('ecoParam') else 'theEcosystem()'
    ecoq = ', ecosystem *Ecosystem' if e.get('ecoParam') else ''
    econ = ' && ecosystem != nil' if e.get('ecoParam') else ''
    m = lambda v: e['call'].format(v=v)
    out.append(f'//@ lemma c20-equal [C20]: forall c *constraint, v1, v2 *Version{ecoq} :: trigger({m("v1")}, {m("v2")}) && {req}{econ} && v1 != nil && v2 != nil && ({cmpops}) && v1.Compare(v2) == 0 ==> {m("v1")} == {m("v2")}')
    out.append(f'//@ lemma c20-convex [C20]: forall c *constraint, a, b, d *Version{ecoq} :: trigger({m("a")}, {m("d")}, a.Compare(b), b.Compare(d)) && {req}{econ} && a != nil && b != nil && d != nil && ({cmpops}){nonne} && a.Compare(b) <= 0 && b.Compare(d) <= 0 && {m("a")} && {m("d")} ==> {m("b")}')
    return '\n'.join(out) + '\n'
if __name__ == '__main__':
    for n in sys.argv[1:]:
        sys.stdout.write(gen(n))

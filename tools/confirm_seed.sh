#!/bin/bash
# usage: tools/confirm_seed.sh <id> <patch> <demo_test_txt> <pkgdir> [extra go test flags]
# Confirms a seeded change: builds, existing suite passes, demo fails with the change and passes without it.
id=$1; patch=$(readlink -f $2); demo=$(readlink -f $3); pkgdir=$4; shift 4
wt=$(mktemp -d /tmp/govc-seedchk-XXXXXX); rmdir $wt
git -C /repo worktree add -q $wt HEAD || exit 3
trap 'git -C /repo worktree remove --force $wt >/dev/null 2>&1; rm -rf $wt' EXIT
cd $wt; export GOFLAGS=-mod=mod GOPROXY=off
git apply $patch || { echo "PATCH-FAILS"; exit 3; }
go build ./... || { echo "BUILD-FAILS"; exit 3; }
if go test -mod=mod -vet=off -count=1 ./... >/tmp/seedchk.$id.log 2>&1; then echo "suite: PASS with change"; else echo "suite: FAIL with change"; grep -v "^ok\|no test files" /tmp/seedchk.$id.log | head -5; fi
cp $demo $pkgdir/zz_seed_demo_test.go
if go test -mod=mod -vet=off -count=1 "$@" -run 'Test' ./$pkgdir/ >/tmp/seedchk.$id.demo1.log 2>&1; then echo "demo with change: PASS (unexpected)"; else echo "demo with change: FAIL (expected)"; fi
git apply -R $patch
if go test -mod=mod -vet=off -count=1 "$@" -run 'Test' ./$pkgdir/ >/tmp/seedchk.$id.demo2.log 2>&1; then echo "demo without change: PASS (expected)"; else echo "demo without change: FAIL (unexpected)"; tail -5 /tmp/seedchk.$id.demo2.log; fi
rm -f /tmp/seedchk.$id.*
